"""Hash-consed bit-vector term DAG used by the symbolic executor.

Concrete values are plain Python ints, normalised *unsigned* modulo 2^w.
Booleans are Python bools (concrete) or Terms of width 0 (symbolic).
A Term whose only variable is a single input byte carries a 256-entry truth /
value table, which lets the executor decide byte predicates without the solver
(the path condition over input bytes is kept as a decision diagram, see mdd.py);
everything else is translated to z3 on demand (see solver.py).
"""

HARDOPS = frozenset(('mul', 'mulhi', 'udiv', 'urem', 'sdiv', 'srem'))
MASK = {w: (1 << w) - 1 for w in (1, 8, 16, 32, 64, 128)}


def mask(w):
    m = MASK.get(w)
    if m is None:
        m = MASK[w] = (1 << w) - 1
    return m


def sgn(v, w):
    return v - (1 << w) if v >> (w - 1) else v


class Var:
    __slots__ = ('idx', 'name', 'w', 'kind', 'bit', 'order')

    def __init__(self, idx, name, w, kind, order=-1):
        self.idx = idx
        self.name = name
        self.w = w
        self.kind = kind  # 'byte' (MDD tracked) or 'free'
        self.bit = 1 << idx
        self.order = order


class Term:
    __slots__ = ('op', 'args', 'w', 'vars', 'tab', 'z3', 'id', 'lia', 'msk', 'hard')

    def __repr__(self):
        return 'T%d:%s/%d' % (self.id, self.op, self.w)

    def __hash__(self):
        return self.id

    def __eq__(self, other):
        return self is other

    def __bool__(self):
        raise TypeError('symbolic term used as Python bool: %r' % (self,))


class TermStore:
    """All terms of one run. Not thread safe; one per process."""

    def __init__(self):
        self.table = {}
        self.vars = []
        self.nterms = 0
        self.consttabs = {}   # id(tuple) -> (tuple, tabid)
        self.tabs = []        # tabid -> (tuple of ints, elem width)
        self.nbytevars = 0

    # ---- variables -------------------------------------------------
    def newvar(self, name, w, kind='free'):
        order = -1
        if kind == 'byte':
            order = self.nbytevars
            self.nbytevars += 1
        v = Var(len(self.vars), name, w, kind, order)
        self.vars.append(v)
        t = self._mk('var', w, (v.idx,), v.bit)
        if kind == 'byte':
            t.tab = tuple(range(256))
        return t

    def var_of(self, t):
        return self.vars[t.args[0]]

    # ---- construction ----------------------------------------------
    def _mk(self, op, w, args, vars_):
        key = (op, w, args)
        t = self.table.get(key)
        if t is not None:
            return t
        t = Term()
        t.op = op
        t.args = args
        t.w = w
        t.vars = vars_
        t.tab = None
        t.z3 = None
        t.lia = None
        t.msk = None
        t.hard = None
        t.id = self.nterms
        self.nterms += 1
        self.table[key] = t
        return t

    def mk(self, op, w, *args):
        """Generic constructor: folds constants, otherwise builds a node.
        w is the result width (0 for bool)."""
        vs = 0
        allc = True
        for a in args:
            if a.__class__ is Term:
                vs |= a.vars
                allc = False
        if allc:
            return evalop(op, w, args, self)
        if op == 'mul':
            # multiplication by a power of two is a shift (keeps the term out of the
            # integer-arithmetic fallback and cheap for bit-blasting)
            x, y = args
            if x.__class__ is not Term:
                x, y = y, x
            if y.__class__ is not Term and y > 0 and (y & (y - 1)) == 0:
                return self.mk('shl', w, x, y.bit_length() - 1)
        t = self._mk(op, w, args, vs)
        if t.hard is None:
            h = (op in HARDOPS and w >= 32)
            if not h:
                for a in args:
                    if a.__class__ is Term and a.hard:
                        h = True
                        break
            t.hard = h
        if t.tab is None and vs and (vs & (vs - 1)) == 0:
            v = self.vars[vs.bit_length() - 1]
            if v.kind == 'byte':
                self._mktab(t)
        return t

    def _mktab(self, t):
        cols = []
        for a in t.args:
            if a.__class__ is Term:
                if a.tab is None:
                    return
                cols.append(a.tab)
            else:
                cols.append(None)
        op, w, args = t.op, t.w, t.args
        out = []
        n = len(args)
        if n == 1:
            c0 = cols[0]
            for i in range(256):
                out.append(evalop(op, w, (c0[i],), self))
        elif n == 2:
            c0, c1 = cols
            a0, a1 = args
            if c0 is None:
                for i in range(256):
                    out.append(evalop(op, w, (a0, c1[i]), self))
            elif c1 is None:
                for i in range(256):
                    out.append(evalop(op, w, (c0[i], a1), self))
            else:
                for i in range(256):
                    out.append(evalop(op, w, (c0[i], c1[i]), self))
        else:
            for i in range(256):
                vals = tuple(args[k] if cols[k] is None else cols[k][i] for k in range(n))
                out.append(evalop(op, w, vals, self))
        t.tab = tuple(out)

    def truthmask(self, t):
        """For a bool term over one byte variable: (var, 256-bit mask)."""
        tab = t.tab
        m = 0
        for i in range(256):
            if tab[i]:
                m |= 1 << i
        return m

    def consttab(self, cells, w):
        k = id(cells)
        e = self.consttabs.get(k)
        if e is not None and e[0] is cells:
            return e[1]
        tid = len(self.tabs)
        self.tabs.append((cells, w))
        self.consttabs[k] = (cells, tid)
        return tid

    # ---- convenience -------------------------------------------------
    def ite(self, c, a, b, w):
        if c is True:
            return a
        if c is False:
            return b
        if a is b:
            return a
        if a.__class__ is not Term and b.__class__ is not Term and a == b:
            return a
        if w == 0:
            if a is True and b is False:
                return c
            if a is False and b is True:
                return self.mk('bnot', 0, c)
        return self.mk('ite', w, c, a, b)

    def band(self, a, b):
        if a is True:
            return b
        if b is True:
            return a
        if a is False or b is False:
            return False
        if a is b:
            return a
        return self.mk('band', 0, a, b)

    def bor(self, a, b):
        if a is False:
            return b
        if b is False:
            return a
        if a is True or b is True:
            return True
        if a is b:
            return a
        return self.mk('bor', 0, a, b)

    def bnot(self, a):
        if a is True:
            return False
        if a is False:
            return True
        if a.op == 'bnot':
            return a.args[0]
        return self.mk('bnot', 0, a)

    def eq(self, a, b):
        if a is b:
            return True
        return self.mk('eq', 0, a, b)

    def evaluate(self, t, assign):
        """Concrete evaluation under assign: var idx -> int. Iterative, memoised."""
        if t.__class__ is not Term:
            return t
        memo = {}
        stack = [t]
        while stack:
            x = stack[-1]
            if x.id in memo:
                stack.pop()
                continue
            if x.op == 'var':
                memo[x.id] = assign[x.args[0]]
                stack.pop()
                continue
            pend = False
            for a in x.args:
                if a.__class__ is Term and a.id not in memo:
                    stack.append(a)
                    pend = True
            if pend:
                continue
            vals = tuple(memo[a.id] if a.__class__ is Term else a for a in x.args)
            memo[x.id] = evalop(x.op, x.w, vals, self)
            stack.pop()
        return memo[t.id]


def evalop(op, w, a, store=None):
    """Concrete semantics. For ops with an operand width different from the
    result width (comparisons, ext/trunc) the operand width is passed as an
    extra trailing int argument."""
    if op == 'add':
        return (a[0] + a[1]) & mask(w)
    if op == 'sub':
        return (a[0] - a[1]) & mask(w)
    if op == 'mul':
        return (a[0] * a[1]) & mask(w)
    if op == 'and':
        return a[0] & a[1]
    if op == 'or':
        return a[0] | a[1]
    if op == 'xor':
        return a[0] ^ a[1]
    if op == 'andnot':
        return a[0] & ~a[1] & mask(w)
    if op == 'shl':
        return (a[0] << a[1]) & mask(w) if a[1] < w else 0
    if op == 'lshr':
        return a[0] >> a[1] if a[1] < w else 0
    if op == 'ashr':
        s = sgn(a[0], w)
        sh = a[1] if a[1] < w else w - 1
        return (s >> sh) & mask(w)
    if op == 'udiv':
        return a[0] // a[1]
    if op == 'urem':
        return a[0] % a[1]
    if op == 'sdiv':
        x, y = sgn(a[0], w), sgn(a[1], w)
        q = abs(x) // abs(y)
        if (x < 0) != (y < 0):
            q = -q
        return q & mask(w)
    if op == 'srem':
        x, y = sgn(a[0], w), sgn(a[1], w)
        r = abs(x) % abs(y)
        if x < 0:
            r = -r
        return r & mask(w)
    if op == 'neg':
        return (-a[0]) & mask(w)
    if op == 'not':
        return (~a[0]) & mask(w)
    if op == 'eq':
        return a[0] == a[1]
    if op == 'ne':
        return a[0] != a[1]
    if op == 'ult':
        return a[0] < a[1]
    if op == 'ule':
        return a[0] <= a[1]
    if op == 'slt':
        return sgn(a[0], a[2]) < sgn(a[1], a[2])
    if op == 'sle':
        return sgn(a[0], a[2]) <= sgn(a[1], a[2])
    if op == 'band':
        return bool(a[0] and a[1])
    if op == 'bor':
        return bool(a[0] or a[1])
    if op == 'bnot':
        return not a[0]
    if op == 'beq':
        return bool(a[0]) == bool(a[1])
    if op == 'ite':
        return a[1] if a[0] else a[2]
    if op == 'zext':
        return a[0]
    if op == 'sext':
        return sgn(a[0], a[1]) & mask(w)
    if op == 'trunc':
        return a[0] & mask(w)
    if op == 'b2i':
        return 1 if a[0] else 0
    if op == 'select':
        cells, ew = store.tabs[a[0]]
        i = a[1]
        return cells[i] if i < len(cells) else 0
    if op == 'i2f' or op == 'u2f':
        import struct
        v = sgn(a[0], a[1]) if op == 'i2f' else a[0]
        return struct.unpack('<Q', struct.pack('<d', float(v)))[0]
    if op == 'mulhi':  # high 64 bits of unsigned 64x64 product
        return (a[0] * a[1]) >> w
    if op == 'clz':
        return w - a[0].bit_length()
    if op == 'len':
        return a[0].bit_length()
    raise NotImplementedError(op)
