"""R-ROUND: 'bits is the binary64 nearest to (-1)^neg * man * 10^e10, ties to even, finite'
as integer-arithmetic obligations (DESIGN appendix A.1), discharged with the LIA solver.

The biased exponent field of the result is enumerated with the solver (it takes one to
three values per table row / path); for a fixed field the binary exponent E is a constant,
so with A = 4*10^max(e10,0)*2^max(-E,0) and B = 10^max(-e10,0)*2^max(E,0) the statement
"man*10^e10 lies in the rounding interval of M*2^E" is linear in man and M."""
import z3

from .terms import Term


def _decompose(lia, bits_t):
    """bits = sign*2^63 + ef*2^52 + frac as fresh integers constrained accordingly"""
    b, lo, hi, side = lia.conv(bits_t)
    sign = lia.fresh('sgn')
    ef = lia.fresh('ef')
    frac = lia.fresh('frac')
    cons = list(side) + [b == sign * (1 << 63) + ef * (1 << 52) + frac,
                         sign >= 0, sign <= 1, ef >= 0, ef <= 2047, frac >= 0, frac < (1 << 52)]
    return sign, ef, frac, cons


def wrong_formula(man, e10, ef_val, frac):
    """z3 formula over Int man, frac: M*2^E (ef fixed) is NOT the correctly rounded value of man*10^e10"""
    return wrong_formula_q(man * (10 ** max(e10, 0)), 10 ** max(-e10, 0), ef_val, frac)


def wrong_formula_q(num, den, ef_val, frac):
    """M*2^E (exponent field ef_val, fraction frac) is NOT the binary64 nearest (ties to even) to the
    non-negative rational num/den (num: z3 Int expression, den: positive integer constant)"""
    if ef_val == 0x7FF:
        return z3.BoolVal(True)
    if ef_val == 0:
        M = frac
        E = -1074
    else:
        M = frac + (1 << 52)
        E = ef_val - 1075
    x4 = num * (4 * (2 ** max(-E, 0)))
    B = (2 ** max(E, 0)) * den
    odd = (frac % 2 == 1)
    if ef_val > 1:
        lowmid = z3.If(frac == 0, (4 * M - 1) * B, (4 * M - 2) * B)
        low_incl = z3.Or(frac == 0, z3.Not(odd))
    else:
        lowmid = (4 * M - 2) * B
        low_incl = z3.Not(odd)
    upmid = (4 * M + 2) * B
    below = z3.Or(x4 < lowmid, z3.And(x4 == lowmid, z3.Not(low_incl)))
    above = z3.Or(x4 > upmid, z3.And(x4 == upmid, odd))
    return z3.Or(below, above)


def check_rounded(ses, st, man_t, e10, neg, bits_t, cap=6):
    """returns list of (verdict, info). verdict 'unsat' = holds on this path for that exponent field"""
    ex = ses.ex
    lia = ex.solver.lia
    sign, ef, frac, cons = _decompose(lia, bits_t)
    if man_t.__class__ is Term:
        man, _, _, mside = lia.conv(man_t)
        cons += list(mside)
    else:
        man = z3.IntVal(man_t)
    if neg.__class__ is Term:
        negz, _, _, nside = lia.conv(neg)
        cons += list(nside)
        signbad = z3.Or(z3.And(negz, sign == 0), z3.And(z3.Not(negz), sign == 1))
    else:
        signbad = (sign == (0 if neg else 1))
    results = []
    # candidate exponent fields from the interval of the bit pattern (no solver needed)
    _, blo, bhi, _ = lia.conv(bits_t)
    lo_ef = (blo >> 52) & 0x7FF
    hi_ef = (bhi >> 52) & 0x7FF
    if (bhi >> 63) != (blo >> 63) or hi_ef < lo_ef:
        lo_ef, hi_ef = 0, 0x7FF
    if hi_ef - lo_ef > cap:
        seen = []
        while True:
            r = lia.check(st.pc, st.extras, (), raw=cons + [ef != v for v in seen])
            if r != 'sat':
                if r == 'unknown':
                    results.append(('unknown', 'enumerating exponent field'))
                break
            seen.append(lia.last_model.eval(ef, model_completion=True).as_long())
            if len(seen) > cap:
                results.append(('unknown', 'too many exponent field values'))
                break
        cands = seen
    else:
        cands = list(range(lo_ef, hi_ef + 1))
    for v in cands:
        wrong = z3.Or(signbad, wrong_formula(man, e10, v, frac))
        r2 = lia.check(st.pc, st.extras, (), raw=cons + [ef == v, wrong])
        if r2 == 'sat':
            results.append(('sat', {'ef': v, 'assign': lia.model_assign()}))
        else:
            results.append((r2, {'ef': v}))
    return results
