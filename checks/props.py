"""Per-property check definitions."""
from .common import Check, Job, RJSON, FP, prefix_splits, _tmpl_str

BUFMODES_QUICK = [0, 1, 2, 4]          # nil, fresh, used len 0, used len 2
BUFMODES_THOROUGH = [0, 1, 2, 3, 4, 14]  # ... used len 1, len 12 (> any depth reachable at these N)


def _corpus_jobs(c, harness, extra, opts=None, maxlen=160, limit=None):
    """translator validation on the repository's own test inputs: the JSONTestSuite files (<= maxlen bytes)
    are run through the same harness with all bytes concrete; the encoding must agree with the reference
    on each (a disagreement the real build does not reproduce is reported as an encoder mismatch)"""
    import glob
    import os
    files = sorted(glob.glob('/repo/testdata/jsontestsuite/*.json'))
    n = 0
    for f in files:
        try:
            b = open(f, 'rb').read()
        except OSError:
            continue
        if len(b) > maxlen:
            continue
        c.add(Job(harness, [('cbytes', b)] + list(extra), label='%s(%s)' % (harness, os.path.basename(f)), weight=1, opts=dict(opts or {}, nsamples=0)))
        n += 1
        if limit and n >= limit:
            break
    return n


def _depth_jobs(c, harness, ND, modes, D=3):
    """the same harness with the nesting limit scaled from 10,000 to D in the code and in the
    reference, so that nesting up to and beyond the limit is inside the bound"""
    for n in range(D, ND + 1):
        for m in modes:
            c.add(Job(harness, [('bytes', 'd', n), ('int', m)], weight=3 ** n, opts={'scale_depth': D}))


NUMBER_TEMPLATES = [[('D', 1), 8], [b'null', 8], [('D', 1), b'.', 9], [b'[', ('D', 1), b'.', 8, b']'], [b'-', ('D', 2), b'e', 7], [b'{"":', ('D', 1), b'.', ('D', 1), 6, b'}']]


def _number_jobs(c, harness):
    for t in NUMBER_TEMPLATES:
        t = [((x[1], 'digit') if isinstance(x, tuple) else x) for x in t]
        c.add(Job(harness, [('tmpl', 'd', t), ('int', 0)], weight=3 ** 8))


def _machine_jobs(c, harness, N, modes, sym='d', split_from=8):
    for n in range(0, N + 1):
        for m in modes:
            # all buffer modes at the smaller lengths, nil + one dirty buffer at the largest two
            if n >= N - 1 and n > 4 and m not in (modes[0], modes[-1]):
                continue
            if n >= split_from:
                k = 2 if n < split_from + 2 else 3
                for pre in prefix_splits(k):
                    c.add(Job(harness, [('bytes', sym, n, pre), ('int', m)], weight=3 ** n))
            else:
                c.add(Job(harness, [('bytes', sym, n), ('int', m)], weight=3 ** n))


def window_templates(base, nfree=1, positions=None, step=1):
    """every window of nfree free bytes over a long concrete document: the document with bytes
    [pos, pos+nfree) replaced by free bytes, for every pos. One job per position decides all 256^nfree
    variants of the document there; together they put every byte value into every lane / block offset of
    whatever chunked (word-at-a-time, block-wise) fast path the code may take on inputs longer than the
    exhaustive bound."""
    out = []
    rng = positions if positions is not None else range(0, len(base) - nfree + 1, step)
    for pos in rng:
        if pos + nfree > len(base):
            continue
        t = []
        if pos:
            t.append(base[:pos])
        t.append(nfree)
        if base[pos + nfree:]:
            t.append(base[pos + nfree:])
        out.append(t)
    return out


# long well-formed documents whose structural bytes sit at many different distances from a container start
LONG_DOCS = [
    b'[1,2,3,[4],5, 6.5e1 ,"abcdefgh\\n",{"k":[true,null]}]',
    b'{"abcdefghij":[100000,[100000],"a"],"b":{"c":"0123456789abcdef"}}',
    b' \t\r\n \t\r\n \t\r\n \t\r\n  [false,"a" ,[ ] ,{ } ]  ',
]


LONG_WINDOW_BOUND = '%d jobs: long concrete documents (35-65 bytes) with a window of one (thorough: also two) free bytes at every offset'


LONG_STRING_DOCS = [b'["abcdefghijklmnopqrstuvwx\\nyz0123456789",{"abcdefghij\\tk":"lmnopqrstuvwxyz\\u00e9"}]', b' "abcdefghijklmnopqrstuvwxyz\\ud83d\\ude00 0123456789\\\\" ']


def array_lane_docs(maxpad):
    """[ <pad digits> ,[4],"a",5] for every pad length: the first structural byte after '[' at every distance"""
    return [b'[' + b'1' * k + b',[4],"a",5]' for k in range(1, maxpad + 1)] + [b'[' + b' ' * k + b'[4],"a"]' for k in range(0, maxpad + 1, 3)]


def _window_jobs(c, harness, extra, tier, opts=None, docs=None, weight=60):
    docs = LONG_DOCS if docs is None else docs
    n = 0
    for d in docs:
        for t in window_templates(d, 1):
            c.add(Job(harness, [('tmpl', 'd', t)] + list(extra), weight=weight, opts=dict(opts or {}, nsamples=0)))
            n += 1
        if tier != 'quick':
            for t in window_templates(d, 2):
                c.add(Job(harness, [('tmpl', 'd', t)] + list(extra), weight=weight * 3, opts=dict(opts or {}, nsamples=0)))
                n += 1
    return n


def check_C01(tier, nproc=None):
    c = Check('C01', tier)
    N = 7 if tier == 'quick' else 11
    modes = BUFMODES_QUICK if tier == 'quick' else BUFMODES_THOROUGH
    _machine_jobs(c, 'vH_C01', N, modes)
    _number_jobs(c, 'vH_C01')
    ND = 8 if tier == "quick" else 10
    _depth_jobs(c, 'vH_C01', ND, [0, 4, 14])
    ncorpus = _corpus_jobs(c, 'vH_C01', [('int', 4)], limit=(40 if tier == 'quick' else None))
    nwin = _window_jobs(c, 'vH_C01', [('int', 0)], tier) + _window_jobs(c, 'vH_C01', [('int', 4)], tier, docs=array_lane_docs(17)[::3])
    c.bounds = {'N': N, 'buffer_modes': modes, 'meaning': 'every byte string of length <= N; Buffer nil / fresh / used with arbitrary contents',
                'depth_limit': 'all strings <= %d with the limit scaled to 3 (nesting up to and beyond the limit), Buffer nil / used len 2 / used len 12' % ND,
                'concrete_corpus_inputs': ncorpus, 'long_document_windows': LONG_WINDOW_BOUND % nwin}
    c.must_reach = ['C01.compared']
    c.assumptions = ['reference vRefValid (harness/zz_verif_ref.go) is RFC 8259; validated natively against encoding/json',
                     'go/ssa lowering and the gosym encoder model the compiled code (validated by native replay of samples)',
                     'amd64: int is 64 bit']
    c.outside = ['inputs longer than N bytes', 'nesting deeper than N (the 10,000 limit is not reachable at this bound)']
    c.run_jobs(nproc)
    c.confirm()
    return c.finish()


def check_C02(tier, nproc=None):
    c = Check('C02', tier)
    N = 7 if tier == 'quick' else 11
    modes = BUFMODES_QUICK if tier == 'quick' else BUFMODES_THOROUGH
    _machine_jobs(c, 'vH_C02', N, modes)
    _number_jobs(c, 'vH_C02')
    ND = 8 if tier == "quick" else 10
    _depth_jobs(c, 'vH_C02', ND, [0, 4, 14])
    ncorpus = _corpus_jobs(c, 'vH_C02', [('int', 0)], limit=(40 if tier == 'quick' else None))
    nwin = _window_jobs(c, 'vH_C02', [('int', 0)], tier) + _window_jobs(c, 'vH_C02', [('int', 4)], tier, docs=array_lane_docs(17)[1::3])
    c.bounds = {'N': N, 'buffer_modes': modes, 'depth_limit': 'all strings <= %d with the limit scaled to 3' % ND, 'concrete_corpus_inputs': ncorpus, 'long_document_windows': LONG_WINDOW_BOUND % nwin}
    c.must_reach = ['C02.compared']
    c.assumptions = ['reference vRefSkip is the one-pass RFC 8259 prefix reading; validated natively against encoding/json Decoder offsets',
                     'encoder validated by native replay of samples', 'amd64']
    c.outside = ['inputs longer than N bytes', 'depth limit 10,000']
    c.run_jobs(nproc)
    c.confirm()
    return c.finish()


STRING_TEMPLATES = [
    # strings with arbitrary content inside each kind of container (the fast skipper steps over them)
    [b'{"":"', 8, b'"}'], [b'["', 8, b'"]'], [b'{"', 8, b'":0}'], [b'[{"":"', 6, b'"}]'], [b'{"":["', 6, b'"]}'],
    [b'[[', 3, b'],{', 3, b'}]'], [b'{"":{', 4, b'},"":[', 2, b']}'],
    [b'[[[[', 1, b']]]]', 1], [b'{"":{"":{"":{"":', 1, b'}}}}'], [b'[[[[[', 2, b']]]]]'], [b'[{"a":[{"b":[', 1, b']}]}]'],
]


def check_C11(tier, nproc=None):
    c = Check('C11', tier)
    N = 7 if tier == 'quick' else 12
    modes = [0, 4] if tier == 'quick' else [0, 1, 2, 4]
    _machine_jobs(c, 'vH_C11', N, modes)
    for t in STRING_TEMPLATES:
        c.add(Job('vH_C11', [('tmpl', 'd', t), ('int', 0)], weight=3 ** 8))
    _depth_jobs(c, 'vH_C11', 8 if tier == 'quick' else 10, [0, 14])
    nwin = _window_jobs(c, 'vH_C11', [('int', 0)], tier) + _window_jobs(c, 'vH_C11', [('int', 4)], tier, docs=array_lane_docs(18))
    c.bounds = {'N': N, 'buffer_modes_for_fast': modes, 'long_document_windows': LONG_WINDOW_BOUND % nwin, 'templates': [''.join(('?' * x) if isinstance(x, int) else x.decode() for x in t) for t in STRING_TEMPLATES]}
    c.must_reach = ['C11.wellformed']
    c.assumptions = ['encoder validated by native replay of samples', 'amd64']
    c.outside = ['inputs longer than N bytes', 'depth limit 10,000']
    c.run_jobs(nproc)
    c.confirm()
    return c.finish()


def check_C13(tier, nproc=None):
    c = Check('C13', tier)
    N = 6 if tier == 'quick' else 10
    for n in range(0, N + 1):
        c.add(Job('vH_C13_token', [('bytes', 'd', n)], weight=2 ** n))
        c.add(Job('vH_C13_literals', [('bytes', 'd', n)], weight=3 ** n))
        if 1 <= n <= 5:
            c.add(Job('vH_C13_literals', [('bytescap', 'd', n, 5)], weight=3 ** (n + 2)))
            c.add(Job('vH_C13_token', [('bytescap', 'd', n, 2)], weight=2 ** (n + 2)))
        if n <= min(N - 1, 7):
            c.add(Job('vH_C13_exclusive', [('bytes', 'd', n)], weight=5 ** n, opts={'float_contract': True}))
    # whitespace runs longer than any word/block a chunked whitespace skipper may use, one free byte at every offset
    WS = [b' ' * 35 + b'true ', b' \t\r\n' * 9 + b'null', b'\n' * 17 + b'"a"', b'\t' * 33, b' ' * 24 + b'-1.5 ', b'\r\n' * 10 + b'false']
    nwin = 0
    for h, o in (('vH_C13_token', None), ('vH_C13_literals', None), ('vH_C13_exclusive', {'float_contract': True})):
        nwin += _window_jobs(c, h, [], tier, opts=o, docs=WS if tier != 'quick' or h == 'vH_C13_token' else WS[:3], weight=20)
    c.bounds = {'N': N, 'N_exclusive': min(N - 1, 7), 'long_whitespace_windows': LONG_WINDOW_BOUND % nwin}
    c.must_reach = ['C13.eof', 'C13.token', 'C13.readnull', 'C13.exclusive']
    c.assumptions = ['reference token table / literal matcher in harness/zz_verif_ref.go', 'amd64']
    c.outside = ['inputs longer than N bytes (whitespace prefixes longer than N)']
    c.run_jobs(nproc)
    c.confirm()
    return c.finish()


def _std(c, extra_assume=()):
    c.assumptions = ['reference models in harness/zz_verif_ref.go (validated natively against encoding/json, strconv, unicode/utf8)',
                     'go/ssa lowering + gosym encoder model the compiled code (validated by native replay of sampled path classes)',
                     'amd64: int is 64 bit'] + list(extra_assume)


def sliding_templates(prefix, suffix, total, positions, nfree=1, filler=b'a'):
    """a long token of `total` filler bytes in which a window of nfree free bytes slides over the given
    positions: reaches every lane of a word-at-a-time fast path without paying for total free bytes"""
    out = []
    for pos in positions:
        if pos + nfree > total:
            continue
        out.append([prefix + filler * pos, nfree, filler * (total - pos - nfree) + suffix])
    return out


def check_C07(tier, nproc=None):
    c = Check('C07', tier)
    N = 7 if tier == 'quick' else 10
    for n in range(0, N + 1):
        for obj in (False, True):
            if n >= 8:
                for pre in prefix_splits(2 if n < 10 else 3):
                    c.add(Job('vH_C07', [('bytes', 'd', n, pre), ('bool', obj)], weight=3 ** n))
            else:
                c.add(Job('vH_C07', [('bytes', 'd', n), ('bool', obj)], weight=3 ** n))
    for t in ([b'{"k":[[', 1, b']]}'], [b'[[[', 1, b']]]'], [b'{"k":{"k":{"k":', 1, b'}}}'], [b'[{"a":[', 1, b']}]'], [b'[[[[', 1, b']]]]'], [b'{"a":[[[', 1, b']]]}']):
        for obj in (False, True):
            c.add(Job('vH_C07', [('tmpl', 'd', t), ('bool', obj)], weight=500, opts={'scale_depth': 3}))
    # long string members / keys with one (thorough: also two adjacent) free bytes at every offset of the first two
    # 8-byte words: whatever chunked scanning a machine does, every lane sees every byte value
    pos = range(0, 10) if tier == 'quick' else range(0, 18)
    slid = []
    for pre, suf, obj in ((b'["', b'"]', False), (b'{"k":"', b'"}', True), (b'{"', b'":0}', True)):
        for t in sliding_templates(pre, suf, 18, pos, 1):
            slid.append((t, obj))
        if tier != 'quick':
            for t in sliding_templates(pre, suf, 18, pos, 2):
                slid.append((t, obj))
    for t, obj in slid:
        c.add(Job('vH_C07', [('tmpl', 'd', t), ('bool', obj)], weight=400))
    # long documents with every kind of member, one free byte at every offset (handler: every mix of 0 / exact end per call)
    nwin = _window_jobs(c, 'vH_C07', [('bool', False)], 'quick', docs=LONG_DOCS[:1], weight=300) + _window_jobs(c, 'vH_C07', [('bool', True)], 'quick', docs=LONG_DOCS[1:2], weight=300)
    c.bounds = {'N': N, 'long_document_windows': LONG_WINDOW_BOUND % nwin, 'sliding_window_strings': '18-byte string members, object values and keys with a free window at offsets %s' % list(pos), 'depth_limit': 'nesting templates with the limit scaled to 3 (the handler machines themselves have no limit; values the handler declines are validated by the embedded skip machines)', 'handler': 'every per-call mix of "return 0" and "return exact end offset" (one nondeterministic boolean per call)'}
    c.must_reach = ['C07.returned', 'C07.success']
    _std(c)
    c.outside = ['inputs longer than N bytes', 'more than 8 members', 'nesting beyond N']
    c.run_jobs(nproc)
    c.confirm()
    return c.finish()


def check_C09(tier, nproc=None):
    c = Check('C09', tier)
    N = 6 if tier == 'quick' else 10
    K = 3 if tier == 'quick' else 5
    for n in range(0, N + 1):
        for obj in (False, True):
            for k in range(K):
                c.add(Job('vH_C09', [('bytes', 'd', n), ('bool', obj), ('int', k), ('int', 0)], weight=3 ** n))
                if n <= N - 1:
                    # the handler fails with one of the library's own sentinel errors (a delegating handler)
                    for ek in ((1, 2) if tier == 'quick' else (1, 2, 3, 4)):
                        c.add(Job('vH_C09', [('bytes', 'd', n), ('bool', obj), ('int', k), ('int', ek)], weight=3 ** n))
    c.bounds = {'N': N, 'failing_call_index': list(range(K)), 'offset_with_error': 'free 64-bit value'}
    c.must_reach = ['C09.failed-call-made']
    _std(c, ['before the failing call the handler is well-behaved (0 or exact end)'])
    c.outside = ['inputs longer than N bytes', 'failing call index >= %d' % K]
    c.run_jobs(nproc)
    c.confirm()
    return c.finish()


def check_C10(tier, nproc=None):
    c = Check('C10', tier)
    N = 5 if tier == 'quick' else 6
    NS = 6 if tier == 'quick' else 7
    for n in range(0, N + 1):
        for obj in (False, True):
            for m in ([0, 4] if tier == 'quick' else [0, 2, 4]):
                c.add(Job('vH_C10_handler', [('bytes', 'd', n), ('bool', obj), ('int', m)], weight=4 ** n))
    for n in range(0, NS + 1):
        for m in ([0, 4] if tier == 'quick' else [0, 1, 2, 3, 4]):
            c.add(Job('vH_C10_scalars', [('bytes', 'd', n), ('int', m)], weight=3 ** n))
        for spare in ([0, 3] if tier == 'quick' else [0, 1, 3, 4, n + 4]):
            c.add(Job('vH_C10_strings', [('bytes', 'd', n), ('int', spare)], weight=2 ** n))
    # a \u escape met far into a long string (reservation / capacity boundary), and a surrogate escape
    # followed by a truncated second escape
    long_t = [b'"\\n' + b'a' * 1019, 1, b'\\u00e9', 1, b'"'] if tier == 'quick' else [b'"\\n' + b'a' * 1017, 3, b'\\u00e9', 2, b'"']
    for t in (long_t, [b'"\\ud83d\\u', 2], [b'"\\ud83d\\ud', 1, b'"'], [b'\\ud83d\\ude0'], [b'"x\\ud83d\\', 1]):
        c.add(Job('vH_C10_strings', [('tmpl', 'd', t), ('int', 0)], weight=800 + 10 * sum(len(x) for x in t if isinstance(x, bytes))))
        if tier != 'quick' or sum(len(x) for x in t if isinstance(x, bytes)) < 100:
            c.add(Job('vH_C10_strings', [('tmpl', 'd', t), ('int', 3)], weight=800))
    # inputs whose backing array extends beyond their length (stale bytes between len and cap)
    for t in ([b'"\\u', ('hex', 4), b'"'], [b'\\u', ('hex', 4)], [b'"', 1, b'\\u', ('hex', 4)]):
        t = [((x[1], x[0]) if isinstance(x, tuple) else x) for x in t]
        c.add(Job('vH_C10_strings', [('tmpl', 'd', t), ('int', 2)], weight=500))
    for n, extra in (((6, 6),) if tier == 'quick' else ((6, 6), (7, 6))):
        c.add(Job('vH_C10_strings', [('bytescap', 'd', n, extra), ('int', 2)], weight=3 ** n, opts={'prefix': None}))
    # generic decoding far beyond the nesting limit (limit scaled to 3): must return, with an error
    for t in DEPTH_TREE_TEMPLATES:
        for which in (0, 2):
            c.add(Job('vH_C03', [('tmpl', 'd', t), ('int', which)], weight=4 ** 6, opts={'float_contract': True, 'scale_depth': 3}))
    nwin = _window_jobs(c, 'vH_C10_scalars', [('int', 4)], tier, docs=LONG_DOCS + [b' ' * 20 + b'18446744073709551615 ', b'-1234567890123456789012.5e-17'])
    nwin += _window_jobs(c, 'vH_C10_strings', [('int', 3)], tier, docs=[b'"abcdefghijklmnopqrstuvwxyz0123456789"', b'"abcdefghi\\njklmnopqrs\\u00e9tuvwxyz\\ud83d\\ude00"'])
    # the UTF-8 helpers with every tight destination capacity (any run-time panic in a harness is a C10 candidate)
    for n in range(0, 4 if tier == 'quick' else 5):
        for pre, spare in ((0, 1), (1, 2), (2, 3), (0, 2)) + (((1, 1), (0, 3), (2, 5)) if tier != 'quick' else ()):
            c.add(Job('vH_C17', [('bytes', 'd', n), ('int', pre), ('int', spare)], weight=6 ** n))
    c.bounds = {'N_handlers': N, 'N_entry_points': NS, 'handler_offsets': 'free 64-bit value at every call', 'long_document_windows': LONG_WINDOW_BOUND % nwin,
                'beyond_depth_limit': 'generic decoding of nesting templates with the limit scaled to 3'}
    c.must_reach = ['C10.handler-returned', 'C10.scalars-done', 'C10.strings-done']
    _std(c, ['every implicit Go runtime check (index, slice bounds, nil dereference, type assertion, division, make size) is an assertion of the encoding'])
    c.outside = ['inputs longer than the bounds', 'goroutine stack exhaustion', 'non-termination inside the Go runtime']
    c.run_jobs(nproc)
    c.confirm()
    return c.finish()


def check_C14(tier, nproc=None):
    c = Check('C14', tier)
    N = 6 if tier == 'quick' else 8
    NR = 5 if tier == 'quick' else 7
    modes = [1, 2, 4] if tier == 'quick' else [1, 2, 3, 4, 12]
    for n in range(0, N + 1):
        for fn in range(5):
            for m in modes:
                c.add(Job('vH_C14', [('bytes', 'd', n), ('int', fn), ('int', m)], weight=3 ** n))
    for n in range(0, NR + 1):
        for outer in (0, 1):
            for inner in range(5):
                for m in ([1, 4] if tier == 'quick' else [1, 2, 4]):
                    c.add(Job('vH_C14_reentrant', [('bytes', 'd', n), ('int', outer), ('int', inner), ('int', m)], weight=3 ** n))
    for n in range(4, (8 if tier == 'quick' else 9) + 1):
        for fn in range(5):
            if fn >= 3 and n > 6:
                continue
            c.add(Job('vH_C14', [('bytes', 'd', n), ('int', fn), ('int', 14)], weight=3 ** n, opts={'scale_depth': 3}))
    # two-call histories around the (scaled) depth limit: a deep or over-deep first document, through any entry point
    for a in ([b'[[[[', 1], [b'[[[[[', 1, b']]]]]'], [b'[[[', 1, b']]]']):
        for fnA in range(5):
            for fnB in range(5):
                c.add(Job('vH_C14_history', [('tmpl', 'a', a), ('bytes', 'd', 4), ('int', fnA), ('int', fnB), ('bool', False)], weight=3 ** 5, opts={'scale_depth': 3}))
    NH = 3 if tier == 'quick' else 4
    for fnA in range(5):
        for fnB in range(5):
            for alias in (True, False):
                if not alias and tier == 'quick' and (fnA + fnB) % 2:
                    continue
                c.add(Job('vH_C14_history', [('bytes', 'a', NH), ('bytes', 'd', NH), ('int', fnA), ('int', fnB), ('bool', alias)], weight=3 ** (2 * NH - 1)))
    c.bounds = {'N': N, 'N_reentrant': NR, 'two_call_histories': 'every ordered pair of the five Buffer entry points on all strings of length %d + %d, second input in its own array or refilled into the first one' % (NH, NH), 'depth_limit': 'skip functions with the limit scaled to 3 and a used stack of length 12', 'buffer_states': 'fresh, or a used stack of length 0/1/2/10 with arbitrary contents'}
    c.must_reach = ['C14.compared', 'C14.reentrant-compared', 'C14.history-compared']
    _std(c, ['any history of calls leaves the Buffer as *some* []int; an arbitrary slice therefore covers every history (trivial induction)'])
    c.outside = ['inputs longer than N', 'stack slices longer than 10 words (the machine only reads stack[j] it wrote in the same call)']
    c.run_jobs(nproc)
    c.confirm()
    return c.finish()


def check_C05(tier, nproc=None):
    c = Check('C05', tier)
    N = 5 if tier == 'quick' else 7
    # (a) every byte string up to N for each reader; (b) digit-string templates reaching the type bounds
    for kind in range(6):
        for n in range(0, N + 1):
            c.add(Job('vH_C05', [('bytes', 'd', n), ('int', kind)], weight=2 ** n))
    D = [1, 9, 10, 11, 17, 18, 19, 20, 21] if tier == 'quick' else list(range(1, 23))
    for kind in range(6):
        for nd in D:
            for sign in ([b''] if kind in (0, 3, 5) else [b'', b'-']):
                if kind in (2, 3) and nd > 12:
                    continue    # 32-bit readers: everything beyond 10 digits is out of range; 11, 12 cover it
                if kind in (4, 5) and tier != 'quick' and nd not in (1, 9, 10, 11, 17, 18, 19, 20, 21):
                    continue    # int/uint delegate to the 64-bit readers on this platform
                # optional sign, nd symbolic digit positions, one symbolic look-ahead byte
                c.add(Job('vH_C05', [('tmpl', 'd', [sign, nd + 1]), ('int', kind)], weight=nd * 50))
    c.bounds = {'N_all_strings': N, 'digit_templates': D, 'template': 'optional "-", D symbolic bytes, 1 symbolic look-ahead byte'}
    c.must_reach = ['C05.compared', 'C05.value']
    _std(c, ['value oracle: Horner evaluation of the reference digit range; range oracle: length/lexicographic comparison with the decimal bound'])
    c.outside = ['literals longer than 22 digits', 'leading whitespace longer than N', '32-bit platforms']
    c.run_jobs(nproc)
    c.confirm()
    return c.finish()


def check_C12(tier, nproc=None):
    c = Check('C12', tier)
    N = 5 if tier == 'quick' else 7
    for n in range(0, N + 1):
        for kind in range(6):
            c.add(Job('vH_C12_int', [('bytes', 'd', n), ('int', kind)], weight=2 ** n))
        c.add(Job('vH_C12_bool', [('bytes', 'd', n)], weight=2 ** n))
        for wb in (False, True):
            c.add(Job('vH_C12_string', [('bytes', 'd', n), ('bool', wb), ('cbytes', b'')], weight=3 ** n))
    for kind in range(6):
        nds = [9, 10] if kind in (2, 3) else [18, 19]
        if tier != 'quick':
            nds = [8, 9, 10, 11] if kind in (2, 3) else [17, 18, 19, 20]
        for nd in nds:
            for tail in (b'', b'null'):
                c.add(Job('vH_C12_int', [('tmpl', 'd', [1, nd, tail]), ('int', kind)], weight=nd * 30))
    # two calls sharing target and scratch buffer: a successful decode (with an escape) then a failing one
    for first in ([b'"', 1, b'\\', 1, 1, b'"'], [b'"', 2, b'"'], [b'"\\u00', ('hexd', 2), b'"']):
        first = [((x[1], 'hex') if isinstance(x, tuple) and x[0] == 'hexd' else x) for x in first]
        for second in ([b'"', 1, b'\\', 1], [b'"', 2], [1, 2]):
            c.add(Job('vH_C12_string', [('tmpl', 'd', first), ('bool', True), ('tmpl', 's', second)], weight=3000))
    c.bounds = {'N': N, 'prior_target': 'free 64-bit value / free bool / string of length 0 or 2 with free bytes',
                'two_call_sequences': 'DecodeString twice with the same target and scratch buffer (templates "?\\??" / "??" / "\\u00HH" then a failing or null second input)'}
    c.must_reach = ['C12.int-compared', 'C12.int-null', 'C12.bool-compared', 'C12.string-compared', 'C12.string-second-call-no-store']
    _std(c, ['DecodeFloat64 is covered by C04/C12 float harness only where registered'])
    c.outside = ['inputs longer than the bounds', 'DecodeFloat64 (see C04)']
    c.run_jobs(nproc)
    c.confirm()
    return c.finish()


def check_C06(tier, nproc=None):
    c = Check('C06', tier)
    N = 6 if tier == 'quick' else 9
    for n in range(0, N + 1):
        for pre, spare in ([(0, 0), (2, 1)] if tier == 'quick' else [(0, 0), (1, 0), (2, 1), (0, 3), (1, 4), (0, n), (2, n + 4)]):
            c.add(Job('vH_C06_bytes', [('bytes', 'd', n), ('int', pre), ('int', spare)], weight=3 ** n))
            c.add(Job('vH_C06_unescape', [('bytes', 'd', n), ('int', pre), ('int', spare)], weight=3 ** n))
        for wb in (False, True):
            c.add(Job('vH_C06_string', [('bytes', 'd', n), ('bool', wb)], weight=3 ** n))
    # escapes need length: "\uXXXX" is 8 bytes, a surrogate pair 14
    T = [[b'"', 2, b'\\u', 4, b'"'], [b'"\\u', 4, b'\\u', 4, b'"'], [b'"\\u', 4, 2, b'"'], [b' "', 1, b'\\', 1, 1, b'"', 1]]
    if tier != 'quick':
        T += [[b'"', 1, b'\\u', 4, 2, b'"'], [b'"\\', 1, b'\\u', 4, b'\\', 1, b'"'], [b'"\\ud', 3, b'\\ud', 3, b'x"'], [b'"', 3, b'\\u', 4, 1, b'"']]
    for t in T:
        for pre, spare in [(0, 0), (1, 3)]:
            c.add(Job('vH_C06_bytes', [('tmpl', 'd', t), ('int', pre), ('int', spare)], weight=5000))
            c.add(Job('vH_C06_unescape', [('tmpl', 'd', t), ('int', pre), ('int', spare)], weight=5000))
        c.add(Job('vH_C06_string', [('tmpl', 'd', t), ('bool', True)], weight=5000))
    # long string tokens (beyond any word/block size of a chunked scanner), one free byte at every offset
    SL = [b'"abcdefghijklmnopqrstuvwxyz0123456789"', b' "abcdefghi\\njklmnopqrs\\u00e9tuvwxyz" ', b'"\xc3\xa9\xe2\x82\xac\xf0\x9f\x98\x80abcdefghijklmno\\"p"']
    nwin = 0
    for d in SL:
        for t in window_templates(d, 1) + (window_templates(d, 2) if tier != 'quick' else []):
            c.add(Job('vH_C06_bytes', [('tmpl', 'd', t), ('int', 1), ('int', 3)], weight=40, opts={'nsamples': 0}))
            c.add(Job('vH_C06_string', [('tmpl', 'd', t), ('bool', True)], weight=40, opts={'nsamples': 0}))
            nwin += 2
            if d[:1] == b'"':
                c.add(Job('vH_C06_unescape', [('tmpl', 'd', t), ('int', 0), ('int', 0)], weight=40, opts={'nsamples': 0}))
                nwin += 1
    # string tokens beyond 1 KiB (thorough: 4 KiB): a free byte around the start, the 1024 (4096) mark and the end, with and
    # without an early escape (which switches the readers to their copying path)
    big = [(1100, [0, 1, 7, 8, 9] + list(range(1014, 1034)) + list(range(1092, 1100)))]
    if tier != 'quick':
        big.append((4200, [0, 8] + list(range(4086, 4106)) + list(range(4190, 4200))))
    nbig = 0
    for total, poss in big:
        for pre in (b'"', b'"\\n'):
            for t in sliding_templates(pre, b'"', total, poss, 1):
                c.add(Job('vH_C06_bytes', [('tmpl', 'd', t), ('int', 1), ('int', 3)], weight=total, opts={'nsamples': 0}))
                c.add(Job('vH_C06_string', [('tmpl', 'd', t), ('bool', True)], weight=total, opts={'nsamples': 0}))
                nbig += 2
    c.bounds = {'N': N, 'templates': [''.join(('?' * x) if isinstance(x, int) else x.decode() for x in t) for t in T],
                'long_string_windows': LONG_WINDOW_BOUND % nwin, 'kilobyte_strings': '%d jobs: %s-byte string tokens with a free byte near the start, the power-of-two mark and the end' % (nbig, [b[0] for b in big]),
                'destination': 'prefix 0..2 arbitrary bytes, spare capacity 0,1,3,4,n,n+4'}
    c.must_reach = ['C06.bytes-compared', 'C06.bytes-ok', 'C06.string-compared', 'C06.unescape-wellformed']
    _std(c)
    c.outside = ['string tokens longer than the bounds', "UnescapeStringContent's extra \\' escape (outside the property)"]
    c.run_jobs(nproc)
    c.confirm()
    return c.finish()


def check_C17(tier, nproc=None):
    c = Check('C17', tier)
    N = 4 if tier == 'quick' else 5
    for n in range(0, N + 1):
        for pre, spare in ([(0, 0), (1, 2)] if tier == 'quick' else [(0, 0), (1, 0), (1, 2), (2, 4 * n)]):
            c.add(Job('vH_C17', [('bytes', 'd', n), ('int', pre), ('int', spare)], weight=6 ** n))
    for shape in range(4):
        c.add(Job('vH_C17_tree', [('bytes', 'd', 5), ('int', shape)], weight=3000))
    # long strings (beyond any block size a chunked validator may use) of 1-, 2-, 3- and 4-byte characters at
    # every alignment, one free byte at every offset (thorough: also two)
    P = 'a\u00e9\u20ac\U0001F600'.encode('utf-8')
    L17 = [P * 8, b'bb' + P * 7 + b'zz'] if tier == 'quick' else [P * 8, b'b' + P * 8, b'bb' + P * 7 + b'zz', b'bbb' + P * 14]
    # ... and runs of 4-byte characters at each of the four alignments (a character then straddles every block boundary
    # in every way); thorough: 3- and 2-byte runs too
    F4, F3, F2 = '\U0001F600'.encode('utf-8'), '\u20ac'.encode('utf-8'), '\u00e9'.encode('utf-8')
    L17 += [b'b' * k + F4 * 17 for k in range(4)]
    if tier != 'quick':
        L17 += [b'b' * k + F3 * 23 for k in range(3)] + [b'b' * k + F2 * 35 for k in range(2)] + [b'b' * k + F4 * 34 for k in range(4)]
    nwin = 0
    for d in L17:
        for t in window_templates(d, 1) + (window_templates(d, 2, step=3) if tier != 'quick' else []):
            c.add(Job('vH_C17', [('tmpl', 'd', t), ('int', 1), ('int', 2)], weight=60, opts={'nsamples': 0}))
            nwin += 1
    c.bounds = {'N': N, 'trees': '4 shapes (nested slices/maps, depth 3) with 3 symbolic strings (2+1+1 bytes) and a symbolic 1-byte key',
                'long_string_windows': '%d jobs: %s-byte strings of 1/2/3/4-byte characters at every alignment with a window of free bytes at every offset' % (nwin, [len(d) for d in L17])}
    c.must_reach = ['C17.compared', 'C17.tree']
    _std(c, ['slice/map helpers: see level_note'])
    c.outside = ['strings longer than N bytes (every 1..4-byte sequence class is inside the bound)', 'trees other than the four shapes; keys that collide after replacement']
    c.run_jobs(nproc)
    c.confirm()
    return c.finish()


TREE_TEMPLATES = [
    # duplicate / colliding keys, escaped keys, nested containers before a duplicate, empty containers in every position
    [b'{"', 1, b'":', 1, b',"', 1, b'":', 1, b'}'],
    [b'{"', 2, b'":1,"', 2, b'":2}'],
    [b'{"\\u00', 2, b'":1,"', 1, b'":2}'],
    [b'{"a":{"', 1, b'":1},"', 1, b'":', 1, b'}'],
    [b'[', 1, b',[', 1, b'],{', 2, b'},', 1, b']'],
    [b'[{"', 1, b'":[', 1, b']},{"', 1, b'":', 1, b'}]'],
    [b'{"', 1, b'\\', 1, b'":"', 1, b'\\', 1, b'"}'],
    [b' [', 2, b', ', 3, b' ] '],
    [b'{"\\u', ('hexd', 4), b'\\u', ('hexd', 4), b'":1}'],
    [b'{"', 1, b'\\', 1, b'":{"', 1, b'\\', 1, b'":1}}'],
    [b'{"a\\tb":[{"', 1, b'\\n":', 1, b'}]}'],
]
# sibling containers whose sizes go up and down: size hints, pre-sized or carved backing arrays and pooled child
# readers carry state from one sibling to the next
SIBLING_TEMPLATES = [
    [b'[[1,2],[3,4],[5,6],[7,8,9,1,2],[3,4,5,6,', 1, b']]'],
    [b'[[1,2,3],[4],[5,6,7,8],[9],[1,2,3,4,', 1, b']]'],
    [b'[[],[1,2,3,4,5,6,7,8,9],[],[1],[', 1, b']]'],
    [b'{"a":[1,2],"b":[3,4],"c":[5,6],"d":[7,8,9,1,2],"e":[3,4,5,6,', 1, b']}'],
    [b'[{"a":1,"b":2},{"c":3},{"d":4,"e":5,"f":6,"g":', 1, b'},{},{"h":7}]'],
    [b'[[[1,2],[3,4]],[[5,6],[7,8,9,1]],[[', 1, b',3],[4,5,6,7,8]]]'],
]
DEPTH_TREE_TEMPLATES = [[b'[[],[[],[[],[[]', 1, b']]]]'], [b'{"a":{},"b":[[],{"c":[', 1, b']}]}'], [b'[[[', 1, b']]]'], [b'[[[[', 1, b']]]]'], [b'[1,[2,[3,[4', 1, b']]]]']]


def _tmplstr(t):
    return _tmpl_str(t)


def check_C03(tier, nproc=None):
    c = Check('C03', tier)
    N = 6 if tier == 'quick' else 9
    o = {'float_contract': True}
    for which in range(3):
        for n in range(0, N + 1):
            if n >= 6:
                for pre in prefix_splits(1 if n < 8 else 2):
                    c.add(Job('vH_C03', [('bytes', 'd', n, pre), ('int', which)], weight=4 ** n, opts=o))
            else:
                c.add(Job('vH_C03', [('bytes', 'd', n), ('int', which)], weight=4 ** n, opts=o))
        for t in TREE_TEMPLATES:
            t = [((x[1], 'hex') if isinstance(x, tuple) and x[0] == 'hexd' else x) for x in t]
            c.add(Job('vH_C03', [('tmpl', 'd', t), ('int', which)], weight=4 ** 6, opts=o))
        for t in SIBLING_TEMPLATES:
            if (t[0][:1] == b'[' and which != 1) or (t[0][:1] == b'{' and which != 2):
                c.add(Job('vH_C03', [('tmpl', 'd', t), ('int', which)], weight=4 ** 6, opts=o))
        if which != 1:
            for t in DEPTH_TREE_TEMPLATES:
                c.add(Job('vH_C03', [('tmpl', 'd', t), ('int', which)], weight=4 ** 6, opts=dict(o, scale_depth=3)))
    ncorpus = _corpus_jobs(c, 'vH_C03', [('int', 0)], opts=o, limit=(30 if tier == 'quick' else None))
    c.bounds = {'N': N, 'concrete_corpus_inputs': ncorpus, 'templates': [_tmplstr([((x[1], 'hex') if isinstance(x, tuple) and x[0] == 'hexd' else x) for x in t]) for t in TREE_TEMPLATES],
                'sibling_size_templates': [_tmplstr(t) for t in SIBLING_TEMPLATES],
                'depth_limit': 'templates %s with the limit scaled to 3' % [_tmplstr(t) for t in DEPTH_TREE_TEMPLATES]}
    nwin = _window_jobs(c, 'vH_C03', [('int', 0)], tier, opts=o, docs=LONG_DOCS[:2] + LONG_STRING_DOCS[:1], weight=200)
    c.bounds['long_document_windows'] = LONG_WINDOW_BOUND % nwin
    c.must_reach = ['C03.returned', 'C03.success']
    _std(c, ['number leaves: fp.ParseJSONFloatPrefix replaced by the contract vFloatStub (literal delimited by the reference grammar, value and overflow verdict uninterpreted functions of the literal bytes); established by C04',
             'sync.Pool.Get returns the most recently Put reader (a fresh reader is used in this check, so the pool starts empty)',
             'map iteration in the comparison uses insertion order (the comparison result does not depend on order)'])
    c.outside = ['documents longer than the bounds', 'numeric leaf values (C04)', 'the 10,000 depth limit']
    c.run_jobs(nproc)
    c.confirm()
    return c.finish()


def check_C15(tier, nproc=None):
    c = Check('C15', tier)
    o = {'float_contract': True}
    # first documents: a mix of successes and failures that leave state behind (hints, pooled children, depth)
    A = [[b'{}'], [b'[]'], [b'{"', 1, b'":', 1, b'}'], [b'[', 1, b',[', 1, b']]'], [b'[1, 2'], [b'{"a": tru}'], [b'[[[', 1, b']]'],
         [b'[{"a":1,"b":2,"c":3},[1,2,3]]'], [b'"', 1, b'\\n"']]
    B = [[b'{}'], [b'{"', 1, b'":', 1, b'}'], [b'[', 2, b']'], [b'[[', 1, b'],{"', 1, b'":[]}]'], [b'"', 2, b'"'], [3], [b'[[[[1]]]]'], [b'[[[1]]]']]
    if tier == 'quick':
        pairs = [(a, b) for a in A for b in B[:6]]
    else:
        pairs = [(a, b) for a in A for b in B]
    for a, b in pairs:
        for w1, w2 in ([(0, 0), (1, 1), (2, 0)] if tier == 'quick' else [(0, 0), (1, 1), (2, 2), (1, 0), (2, 0), (0, 1), (0, 2)]):
            c.add(Job('vH_C15', [('tmpl', 'a', a), ('tmpl', 'b', b), ('int', w1), ('int', w2)], weight=100, opts=o))
    # documents with sibling containers of varying sizes, before and after a small document
    for t in SIBLING_TEMPLATES:
        w = 2 if t[0][:1] == b'[' else 1
        for b in ([b'[', 2, b']'], [b'{"', 1, b'":', 1, b'}']):
            c.add(Job('vH_C15', [('tmpl', 'a', t), ('tmpl', 'b', b), ('int', 0), ('int', 0)], weight=300, opts=o))
            c.add(Job('vH_C15', [('tmpl', 'a', b), ('tmpl', 'b', t), ('int', 0), ('int', w)], weight=300, opts=o))
    # depth accounting across calls, with the limit scaled to 3
    od = {'float_contract': True, 'scale_depth': 3}
    for a in ([b'[1, 2'], [b'{"a": tru}'], [b'[[[[1]]]]'], [b'[[1]]'], [b'[[[[', 1], [b'null'], [b' null ']):
        for b in ([b'[[[1]]]'], [b'[[[[1]]]]'], [b'{"a":{"b":{"c":1}}}'], [b'[', 1, b'[[1]]', 1]):
            for w1, w2 in [(0, 0), (2, 0), (1, 0), (2, 2), (0, 2)]:
                c.add(Job('vH_C15', [('tmpl', 'a', a), ('tmpl', 'b', b), ('int', w1), ('int', w2)], weight=100, opts=od))
    for a in ([b'[[', 1, b'],{}]'], [b'[1, 2']):
        for b in ([b'{"a": tru}'], [b'[{"', 1, b'":1}]']):
            for cc in ([b'[', 1, b',{"', 1, b'":2}]'], [b'{}']):
                c.add(Job('vH_C15_three', [('tmpl', 'a', a), ('tmpl', 'b', b), ('tmpl', 'c', cc), ('int', 0), ('int', 0), ('int', 0)], weight=200, opts=o))
    # success of one kind, failure of the other kind, success of the first kind again
    for a, w1 in (([b'[', 1, b',', 1, b']'], 2), ([b'{"', 1, b'":', 1, b'}'], 1), ([b'[[', 1, b'],{"a":', 1, b'}]'], 0)):
        for b, w2 in (([b'{"a":1,'], 1), ([b'[1,'], 2), ([b'{"a":[1,2'], 0)):
            for cc, w3 in (([b'[', 1, b']'], 2), ([b'{"', 1, b'":3}'], 1), ([b'[[3],{"c":', 1, b'}]'], 0)):
                c.add(Job('vH_C15_three', [('tmpl', 'a', a), ('tmpl', 'b', b), ('tmpl', 'c', cc), ('int', w1), ('int', w2), ('int', w3)], weight=200, opts=o))
    # a call that fails late (after it has allocated), then two successes of a fitting size: whatever the
    # failed call left behind must not become shared between the two later results
    for a, w1 in (([b'[1,2,3,'], 2), ([b'[[1,2,3,4,{]]'], 2), ([b'{"k":[[1,2,3,4,{]]}'], 0), ([b'{"a":1,"b":2,"c":'], 1), ([b'null'], 2), ([b'null'], 1)):
        for b, w2 in (([b'[', 1, b',', 1, b']'], 2), ([b'{"k":[[1,2],[3,4],[5,', 1, b']]}'], 0), ([b'{"', 1, b'":1,"b":2}'], 1)):
            for cc, w3 in (([b'[', 1, b',', 1, b']'], 2), ([b'{"k":[[1,2],[3,4],[5,', 1, b']]}'], 0), ([b'{"', 1, b'":1,"b":2}'], 1)):
                if tier == 'quick' and w2 != w3:
                    continue
                c.add(Job('vH_C15_three', [('tmpl', 'a', a), ('tmpl', 'b', b), ('tmpl', 'c', cc), ('int', w1), ('int', w2), ('int', w3)], weight=200, opts=o))
    # the caller's input buffer is reused between the calls (second document written over the first)
    AL = [([b'{"', 2, b'":', 1, b'}'], 1), ([b'[{"', 1, b'":1},{"', 1, b'":2}]'], 2), ([b'["', 2, b'",', 1, b']'], 2), ([b'{"a":{"', 1, b'":"', 1, b'"}}'], 1), ([b' [', 1, b',"', 1, b'\\n"]'], 2)]
    for a, wa in AL:
        for b, wb in AL:
            if tier == 'quick' and wa != wb:
                continue
            for w1, w2 in ((0, 0), (wa, wb)):
                c.add(Job('vH_C15_alias', [('tmpl', 'a', a), ('tmpl', 'b', b), ('int', w1), ('int', w2)], weight=150, opts=o))
    c.bounds = {'histories': 'two calls (and selected three-call sequences) on one reader; documents from %d x %d templates with symbolic bytes; all ReadValue/ReadObject/ReadArray combinations listed' % (len(A), len(B)),
                'first_docs': [_tmplstr(t) for t in A], 'second_docs': [_tmplstr(t) for t in B]}
    c.bounds['reused_input_buffer'] = 'second document copied over the first one (same backing array) before the second call: %d template pairs' % len(AL) ** 2
    c.must_reach = ['C15.second-call', 'C15.second-ok', 'C15.first-ok', 'C15.third-call', 'C15.alias-second-call', 'C15.alias-second-ok']
    _std(c, ['number contract as in C03', 'sync.Pool.Get returns the most recently Put reader (the functional alternative "returns nil" equals the fresh-reader run)'])
    c.outside = ['histories longer than three calls', 'documents outside the templates', 'GC-driven pool eviction timing']
    c.run_jobs(nproc)
    c.confirm()
    return c.finish()


def check_C08(tier, nproc=None):
    c = Check('C08', tier)
    N = 6 if tier == 'quick' else 8
    o = {'float_contract': True, 'no_float_overflow': True}
    for validating in (False, True):
        for n in range(0, N + 1):
            if n >= 6:
                for pre in prefix_splits(1 if n < 8 else 2):
                    c.add(Job('vH_C08', [('bytes', 'd', n, pre), ('bool', validating)], weight=4 ** n, opts=o))
            else:
                c.add(Job('vH_C08', [('bytes', 'd', n), ('bool', validating)], weight=4 ** n, opts=o))
        for t in TREE_TEMPLATES[:6] + [[b'[[[[', 1, b']]]]'], [b'{"a":{"b":{"c":{"d":', 1, b'}}}}']]:
            c.add(Job('vH_C08', [('tmpl', 'd', t), ('bool', validating)], weight=4 ** 6, opts=o))
    c.bounds = {'N': N, 'templates': [_tmplstr(t) for t in TREE_TEMPLATES[:6]],
                'decoders': 'per token a nondeterministic choice among the admissible API calls (typed reader / SkipValue / SkipValueFast / nested Handle*Values whose handler recurses)'}
    c.must_reach = ['C08.composed', 'C08.direct-ok']
    _std(c, ['number contract as in C03; numbers are assumed to fit float64 (overflow is C04)',
             'value-tree reconstruction through handlers is checked in C03 (ValueReader is such a decoder); here: final offsets and failure of validating decoders'])
    c.outside = ['documents longer than the bounds']
    c.run_jobs(nproc)
    c.confirm()
    return c.finish()


def check_C16(tier, nproc=None):
    c = Check('C16', tier)
    N = 5 if tier == 'quick' else 7
    o = {'float_contract': True}
    for n in range(0, N + 1):
        for which in range(4):
            c.add(Job('vH_C16_inputs', [('bytes', 'd', n), ('int', which)], weight=4 ** n, opts=o))
        for bc in (0, 4):
            c.add(Job('vH_C16_owned', [('bytes', 'd', n), ('int', bc)], weight=4 ** n, opts=o))
        # append semantics / independence from prior contents and spare capacity of destination and scratch
        for pre, spare in ([(1, 0), (2, 1), (2, 5)] if tier == 'quick' else [(1, 0), (1, 1), (2, 1), (2, 3), (2, 5), (2, n + 4)]):
            c.add(Job('vH_C06_bytes', [('bytes', 'd', n), ('int', pre), ('int', spare)], weight=3 ** n))
            c.add(Job('vH_C06_unescape', [('bytes', 'd', n), ('int', pre), ('int', spare)], weight=3 ** n))
            if n <= 4:
                c.add(Job('vH_C17', [('bytes', 'd', n), ('int', pre), ('int', spare)], weight=6 ** n))
        c.add(Job('vH_C06_string', [('bytes', 'd', n), ('bool', True)], weight=3 ** n))
    T = [[b'"', 1, b'\\', 1, 1, b'"'], [b'"\\u', 4, 1, b'"'], [b'["', 1, b'\\', 1, b'",{"', 1, b'\\', 1, b'":"', 1, b'"}]']]
    for t in T:
        for bc in (0, 4):
            c.add(Job('vH_C16_owned', [('tmpl', 'd', t), ('int', bc)], weight=5000, opts=o))
        c.add(Job('vH_C16_inputs', [('tmpl', 'd', t), ('int', 1)], weight=5000, opts=o))
        c.add(Job('vH_C16_inputs', [('tmpl', 'd', t), ('int', 3)], weight=5000, opts=o))
        for pre, spare in [(2, 0), (2, 2), (1, 7)]:
            c.add(Job('vH_C06_bytes', [('tmpl', 'd', t), ('int', pre), ('int', spare)], weight=5000))
    # long documents with long escaped strings and keys, a free window at every offset: whatever block-wise or in-place
    # decoding the string paths do on long tokens must leave the input alone and hand out memory of its own
    nwin = 0
    for d in LONG_STRING_DOCS:
        for which in ((1, 3) if tier == 'quick' else (0, 1, 2, 3)):
            nwin += _window_jobs(c, 'vH_C16_inputs', [('int', which)], tier, opts=o, docs=[d])
        nwin += _window_jobs(c, 'vH_C16_owned', [('int', 4)], tier, opts=o, docs=[d])
    c.bounds = {'N': N, 'templates': [_tmplstr(t) for t in T], 'destinations': 'prefix 1..2 arbitrary bytes, spare capacity 0,1,3,5,n+4; dirty scratch buffers', 'long_document_windows': LONG_WINDOW_BOUND % nwin}
    c.must_reach = ['C16.inputs', 'C16.owned', 'C06.bytes-ok']
    _std(c, ['strings are values in the encoding: a result aliasing a buffer through package unsafe cannot be represented; such code is reported as an unsupported construct (no verdict) and is only caught by the native replay of sampled inputs',
             'every store through a pointer into an input object is a monitored event (write-to-input) besides the explicit comparison with a snapshot'])
    c.outside = ['inputs longer than the bounds', 'aliasing created with package unsafe (see assumptions)']
    c.run_jobs(nproc)
    c.confirm()
    return c.finish()


def check_C04(tier, nproc=None):
    c = Check('C04', tier, level='model_checking')
    # tier 1: scanner on all strings and on long-literal templates
    N = 5 if tier == 'quick' else 7
    for n in range(0, N + 1):
        c.add(Job('vH_FP_scan', [('bytes', 'd', n)], pkg=FP, weight=3 ** n, opts={'scanvalue': True}))
    D = 'digit'
    T = [[(18, D), 3], [b'-', (20, D), 1], [(2, D), b'.', (18, D), 1], [b'0.000', (17, D), 1], [(1, D), b'e', 1, (4, D), 1], [(3, D), b'.', (2, D), b'E-', (3, D), 1],
         [(17, D), 1, (2, D), b'e+', (2, D)], [1, (2, D), 2, (2, D), 1],
         [(3, D), b'e-12', 1], [(2, D), b'.', (2, D), b'E+7'], [b'-', (1, D), b'.', (19, D), b'e5'], [(20, D), b'e-3'], [b'0.', (20, D), b'E300']]
    if tier != 'quick':
        T += [[(22, D), 1], [(1, D), b'.', (21, D)], [b'0.', (22, D)], [(9, D), b'.', (11, D), b'e', (2, D), 1], [(1, D), b'e-', (6, D)], [b'-', 1, b'.', 1, b'e', 1, 1, 1],
              [(19, D), 1, (2, D)], [(16, D), 2, (3, D), 1]]
    # literals far longer than any exponent cap could anticipate: 100 005 zeros and an exponent that brings the value
    # back to a single digit (the scanner and decimal.set must keep accumulating the exponent; fix f8cd401)
    Z = b'0'
    TL = [[b'0.' + Z * 100005, (1, D), b'e100006']] + ([[(1, D), Z * 100005, b'e-100005'], [b'-', (1, D), b'.', Z * 20003, (1, D), b'E+20001']] if tier != 'quick' else [])
    for t in T:
        c.add(Job('vH_FP_scan', [('tmpl', 'd', t)], pkg=FP, weight=4000, opts={'scanvalue': True}))
    for t in TL:
        c.add(Job('vH_FP_scan', [('tmpl', 'd', t)], pkg=FP, weight=200000, opts={'scanvalue': True, 'nsamples': 1}))
    # tier 3: Eisel-Lemire, one obligation set per table row (all 2^63 normalised mantissas per row)
    o = {'bits_intrinsics': True}
    rows = list(range(-348, 348))
    for e10 in rows:
        oo = dict(o, nsamples=(1 if e10 % 16 == 0 else 0))
        c.add(Job('vH_EL', [('int', e10), ('int', 0), ('bool', False)], pkg=FP, weight=1000, opts=oo))
    extra_clz = [1, 63] if tier == 'quick' else [1, 2, 3, 10, 11, 31, 52, 53, 62, 63]
    step = 58 if tier == 'quick' else 1
    o0 = dict(o, nsamples=0)
    for e10 in rows[::step]:
        for k in extra_clz:
            c.add(Job('vH_EL', [('int', e10), ('int', k), ('bool', False)], pkg=FP, weight=900, opts=o0))
        c.add(Job('vH_EL', [('int', e10), ('int', 0), ('bool', True)], pkg=FP, weight=900, opts=o0))
    # tier 2: the exact floating-point path, every exponent it accepts (and a margin), every 64-bit mantissa
    ox = {'fx_model': True, 'bits_intrinsics': True, 'nsamples': 1}
    for e10 in range(-26, 42):
        for neg in (False, True):
            c.add(Job('vH_FP_exact', [('int', e10), ('bool', neg)], pkg=FP, weight=500, opts=ox))
    # every API that decodes numbers to float64 returns what ReadFloat64 returns (bit for bit)
    oa = {'float_contract': True, 'nsamples': 1}
    for n in range(0, (5 if tier == 'quick' else 6) + 1):
        c.add(Job('vH_C04_api', [('bytes', 'd', n)], weight=4 ** n, opts=oa))
    # tier 4: the glue of ParseJSONFloatPrefix against the tiers' contracts
    og = {'glue': True, 'bits_intrinsics': False, 'nsamples': 2}
    G = [[(3, D), b'.', (2, D)], [b'-', (1, D), b'.', (4, D), b'e5'], [b'0.000', (18, D)], [(20, D)], [(19, D), b'.', (2, D), b'e-10'],
         [(1, 'digit19'), (17, D), b'e300'], [(2, D), b'e-330'], [(21, D), b'e290'], [b'0.', (21, D)], [(18, D), b'.', (3, D)], [(1, D), b'e', b'23'], [b'-0.', (3, D), b'e-5']]
    if tier != 'quick':
        G += [[(22, D), b'e-30'], [(1, 'digit19'), b'.', (20, D), b'E+15'], [(16, D), b'e', b'37'], [(19, D), b'e-22'], [b'0.0', (19, D), b'e10'], [(23, D)]]
    for t in G:
        c.add(Job('vH_FP_glue', [('tmpl', 'd', t)], pkg=FP, weight=3000, opts=og))
    # tier 5a (partial): the left-shift unit of the decimal fallback, with its cheat table
    os_ = {'scanvalue': True, 'nsamples': 1}
    ks = [1, 2, 3, 4, 5, 10, 20, 27, 40, 59, 60] if tier == 'quick' else list(range(1, 61))
    nds = [1, 2, 3] if tier == 'quick' else [1, 2, 3, 4]
    for k in ks:
        for nd in nds:
            c.add(Job('vH_FP_shift', [('int', nd), ('int', nd - 1), ('int', k), ('bool', True)], pkg=FP, weight=200 * nd, opts=os_))
    if tier != 'quick':
        for k in (4, 10, 27, 60):
            for nd in (5, 6):
                c.add(Job('vH_FP_shift', [('int', nd), ('int', 0), ('int', k), ('bool', True)], pkg=FP, weight=5000, opts=os_))
    # ... and the right-shift unit for small shift counts (its remainder loop needs the bit-vector back end
    # to decide termination: n*10 mod 2^k reaches 0 after at most k rounds)
    osr = {'scanvalue': True, 'nsamples': 1, 'bv_only': True}
    rks = [1, 2, 3, 4, 8] if tier == 'quick' else list(range(1, 17)) + [20]
    rnds = [1, 2] if tier == 'quick' else [1, 2, 3]
    for k in rks:
        for nd in rnds:
            if k > 12 and nd > 1:
                continue
            c.add(Job('vH_FP_shift', [('int', nd), ('int', nd), ('int', k), ('bool', False)], pkg=FP, weight=100 * nd * k, opts=osr))
    # tier 5b: the fallback run for real (decimal.set + floatBits) on literals it settles before any shifting:
    # decimal exponent beyond +310 / below -330, and all-zero digit strings; sign must survive
    S5 = [[b'-', (2, D), b'e-400'], [(3, D), b'e400'], [b'-0.', (3, D), b'E-350'], [(1, 'digit19'), b'.', (2, D), b'e+330'],
          [b'-0.000e77'], [b'-', (2, D), b'.', (1, D), b'e5000'], [(1, D), b'E-99999']]
    if tier != 'quick':
        S5 += [[b'-', (6, D), b'e-340'], [(6, D), b'e312'], [b'0.', (5, D), b'e-333'], [b'-', (1, 'digit19'), (4, D), b'E+308'], [(2, D), b'e-20000'], [b'-00.00E-1']]
    for t in S5:
        c.add(Job('vH_FP_slow', [('tmpl', 'd', t)], pkg=FP, weight=300, opts={'slowpath': True, 'nsamples': 2}))
    # tier 5c: decimal.set on its own: the decimal it leaves denotes the literal (exactly, or inside the last kept
    # digit's bracket with trunc set), for short literals of every shape and for literals whose digits cross the
    # 800-digit buffer before the point, after the point, and with an exponent that brings the value back in range
    Z = b'0'
    S6 = [[b'-', (2, D), b'.', (3, D), b'e-5'], [(3, D), b'E+17'], [b'0.00', (3, D), b'e3'], [b'-', (4, D)], [(1, D), b'.', (1, D), b'e-307'],
          [b'1' + Z * 797, (4, D), b'e-801'], [b'1' + Z * 797, (3, D), b'.', (2, D)], [b'0.', (1, 'digit19'), Z * 796, (4, D), b'e5'],
          [b'-', (1, 'digit19'), Z * 798, (2, D), b'.5e-790']]
    if tier != 'quick':
        S6 += [[(1, 'digit19'), b'9' * 790, (12, D)], [b'0.000', (1, 'digit19'), b'3' * 795, (6, D), b'E+20'], [b'7' * 799, (1, D), b'.', (1, D), b'1e-799'],
               [(6, D), b'.', (6, D), b'e42'], [b'-0.', (8, D), b'e-11'], [b'9' * 805, b'e-', b'512']]
    # tier 5e: floatBits for real over an abstract decimal (Shift and RoundedInteger by contract, engine/gosym/absdec.py):
    # scaling loops, power table, exponent bookkeeping, subnormal adjustment, rounding carry, overflow, bit assembly
    N19 = (1, 'digit19')
    S7 = [[N19, (2, D)], [N19, (19, D)], [b'-', N19, b'.', (20, D), b'e-320'], [N19, b'.', (6, D), b'e-308'], [N19, (17, D), b'e291'],
          [b'900719925474099', (3, D)], [b'0.000', N19, (21, D), b'E+15'], [b'1.9999999999999999', (4, D)], [N19, b'.', (3, D), b'e-324'],
          [b'-', N19, (3, D), b'e-326'], [N19, b'.', (5, D), b'e308'], [N19, (2, D), b'e22'], [b'0.', N19, (18, D)], [b'0.0e5'], [b'-0']]
    if tier != 'quick':
        S7 += [[N19, (24, D), b'e-30'], [b'-', N19, b'.', (22, D), b'e-310'], [N19, (19, D), b'e289'], [b'2.22507385850720', (5, D), b'e-308'], [b'4.9', (4, D), b'e-324'],
               [b'1.797693134862315', (5, D), b'e308'], [N19, (15, D), b'.', (8, D)], [b'8.98846567431158', (4, D), b'e307'], [N19, b'e-', b'300'], [N19, (9, D), b'E+', b'150'],
               [b'0.', b'0' * 30, N19, (12, D)], [N19, (30, D)]]
    # ... and a 19-digit mantissa d.dddddddddddddddddd at decimal exponents across the whole range (thorough: every one)
    exps = list(range(-345, 311, 41)) + [-330, -326, -325, -324, -323, -309, -308, -307, -1, 0, 1, 15, 16, 22, 23, 307, 308, 309] if tier == 'quick' else list(range(-345, 312))
    for e10 in sorted(set(exps)):
        S7.append(([b'-'] if e10 % 7 == 0 else []) + [N19, b'.', (18, D), b'e' + str(e10).encode()])
    for t in S7:
        c.add(Job('vH_FP_absbits', [('tmpl', 'd', t)], pkg=FP, weight=2500, opts={'absdec': True, 'nsamples': 2}))
    # tier 5d: RoundedInteger / shouldRoundUp: nearest integer, ties to even, truncated decimals round up at a tie
    for nd in ((1, 2, 3) if tier == 'quick' else (1, 2, 3, 4, 5)):
        for dp in range(0, nd + 3):
            for tr in (False, True):
                if tr and dp >= nd:
                    continue
                c.add(Job('vH_FP_round', [('int', nd), ('int', dp), ('bool', tr)], pkg=FP, weight=100, opts={'scanvalue': True, 'nsamples': 1}))
    # tier 1b / 5c-b: the exponent part for EVERY exponent digit string: concrete mantissa, free exponent digits, through
    # the scanner and through decimal.set (exact, or capped on the same side of the consumer's range as the true value)
    XT = [[b'1e', (5, D)], [b'12.5E-', (6, D)], [b'-0.001e+', (4, D)], [b'0.0e', (3, D)], [b'1234567890123456789012.5e-', (3, D)],
          [b'9' * 26 + b'e', (5, D)], [b'5E', (1, D), b'0', (3, D)], [b'-7.25e-', (5, D)], [b'0.000000000000000000000000000001e', (4, D)]]
    if tier != 'quick':
        XT += [[b'1e', (6, D)], [b'1E-', (6, D)], [b'123456789.123456789e+', (6, D)], [b'9' * 810 + b'e-', (4, D)], [b'0.' + b'0' * 400 + b'25e', (4, D)],
               [b'-1' + b'0' * 30 + b'.5E-', (5, D)], [b'4e-00', (4, D)], [b'2.5e+0', (5, D)]]
    for t in XT:
        c.add(Job('vH_FP_expo', [('tmpl', 'd', t)], pkg=FP, weight=300, opts={'scanvalue': True, 'nsamples': 2, 'ex.ite_merging': False}))
    # tier 5f: the digit buffer holds every exact halfway point (else decimal.set drops digits of a tie, sets trunc, and the
    # tie is rounded up instead of to even): for every binade, every mantissa -- one integer inequality per binade
    e2s = [-1074, -1073, -1060, -1022, -1000, -800, -537, -300, -100, -53, -1, 0, 1, 52, 500, 971] if tier == 'quick' else list(range(-1074, 972))
    for e2 in e2s:
        c.add(Job('vH_FP_halfway', [('int', e2)], pkg=FP, weight=5, opts={'scanvalue': True, 'nsamples': (1 if e2 % 97 == 0 or e2 < -1072 else 0)}))
    for t in S6:
        c.add(Job('vH_FP_set', [('tmpl', 'd', t)], pkg=FP, weight=400, opts={'scanvalue': True, 'nsamples': 2, 'ex.ite_merging': False}))
    for t in TL[:1] + TL[2:]:   # (the 100 006-integer-digit literal is left to the scanner: set's obligation with 99 206 dropped digits is 'unknown' to the integer back end)
        c.add(Job('vH_FP_set', [('tmpl', 'd', t)], pkg=FP, weight=200000, opts={'scanvalue': True, 'nsamples': 1, 'ex.ite_merging': False}))
    c.bounds = {'scanner_all_strings': N, 'scanner_templates': [_tmplstr(t) for t in T],
                'very_long_literals (scanner and decimal.set)': [_tmplstr(t)[:12] + '...' + _tmplstr(t)[-14:] + ' (%d bytes)' % sum(len(x) if isinstance(x, bytes) else (x if isinstance(x, int) else x[0]) for x in t) for t in TL],
                'left_shift_unit': 'leftShift(a, k) for k in %s on every normalised decimal of %s digits: result = value*2^k exactly, normalised, not truncated' % (('1..60' if tier != 'quick' else ks), nds),
                'glue_templates': [_tmplstr(t) for t in G],
                'right_shift_unit': 'rightShift(a, k) for k in %s on every normalised decimal of %s digits (k > 12: one digit)' % (rks, rnds),
                'fallback_early_exit_templates': [_tmplstr(t) for t in S5],
                'decimal_set_templates': [_tmplstr(t) for t in S6],
                'floatbits_abstract_decimal_templates': [_tmplstr(t) for t in S7],
                'exponent_templates (every exponent digit string)': [_tmplstr(t) if len(_tmplstr(t)) < 60 else _tmplstr(t)[:20] + '...' + _tmplstr(t)[-16:] for t in XT],
                'halfway_points_fit_the_digit_buffer': 'for binades with ulp 2^e2, e2 in %s: every mantissa below 2^53-1 (one integer inequality each; the buffer length is read from the code)' % ('-1074..971' if tier != 'quick' else e2s),
                'rounded_integer_unit': 'RoundedInteger on every normalised decimal of 1..%d digits, decimal point 0..nd+2, truncation flag both ways (truncated only with a fractional last digit)' % (3 if tier == 'quick' else 5),
                'exact_path': 'atof64exact for every decimal exponent -26..41, both signs, every 64-bit mantissa',
                'eisel_lemire': 'every one of the 696 table rows x every 64-bit mantissa with 0 leading zeros; leading-zero counts %s on %s rows; negative sign on the same rows' % (extra_clz, 'every 58th' if tier == 'quick' else 'all')}
    c.must_reach = ['C04.scan-returned', 'C04.scan-ok', 'C04.el-returned', 'C04.el-ok', 'C04.exact-returned', 'C04.exact-ok', 'C04.glue-returned', 'C04.glue-ok', 'C04.api-number', 'C04.shift-done', 'C04.slow-returned', 'C04.set-returned', 'C04.round-done', 'C04.absbits-returned', 'C04.absbits-finite', 'C04.halfway-posed', 'C04.expo-scanned']
    _std(c, ['R-ROUND (engine/gosym/fpspec.py): nearest binary64 with ties to even, as linear integer inequalities per exponent field; validated natively with math/big in replays',
             'math/bits.Mul64 and LeadingZeros64 are exact term-level intrinsics',
             'tier 4: eiselLemire64 replaced by its contract (free ok; when ok the result is rnd(man*10^exp), tier 3); atof64exact runs for real in the exact-rational model; f2 == fUp implies every value between the two bounds rounds to f2 (monotonicity of rounding, meta-argument)',
             'tier 2: each IEEE-754 operation on exactly known operands returns rnd(exact result) (the standard\'s definition); comparisons with constants are translated to the un-rounded value by rounding midpoints; an intermediate is taken as exact only when the solver proves it is an integer <= 2^53 on the path, otherwise the double rounding is decided with R-ROUND'])
    c.outside = ['of the multi-precision fallback: the units leftShift (operands up to %d digits, every shift count of the tier), rightShift (shift counts %s, up to %d digits), RoundedInteger (up to %d digits) and decimal.set (templates, across the 800-digit buffer) are established on their own, and floatBits is run for real over an abstract decimal whose Shift / RoundedInteger follow those contracts (tier 5e templates). NOT established: the units on operands longer than stated (so the composition rests on "the unit contracts hold for every operand length"), and the interplay of truncation beyond 800 digits with rounding (an abstract decimal is exact)' % (nds[-1], '%d..%d' % (rks[0], rks[-1]), rnds[-1], 3 if tier == 'quick' else 5),
                 'tier 4 uses the CONTRACT of the multi-precision fallback (returns the correctly rounded literal, overflow flag exact) as an assumption; literals with symbolic exponent digits are outside the glue templates (the exponent accumulation of the scanner and of decimal.set is decided separately for every exponent digit string of the exponent templates)',
                 'the multi-precision decimal fallback (decimal.set, floatBits, shifts): literals with more than 19 significant digits whose bounds disagree, exact halfway cases, exponents beyond +-347, subnormal and overflowing magnitudes are NOT established end to end',
                 'literals longer than the scanner bounds']
    c.run_jobs(nproc)
    c.confirm()
    return c.finish()


def check_C19(tier, nproc=None):
    c = Check('C19', tier)
    N = 6 if tier == 'quick' else 8
    o = {'monitor_alloc': True, 'float_contract': True, 'no_float_overflow': True}
    for group in range(16):
        nmax = N if group in (0, 1, 2, 3, 4, 5, 6) else min(N, 6)
        for n in range(0, nmax + 1):
            c.add(Job('vH_C19', [('bytes', 'd', n), ('int', group), ('cbytes', b'')], weight=3 ** n, opts=o))
            if group < 5 and 2 <= n <= 4:
                c.add(Job('vH_C19', [('bytes', 'd', n), ('int', group), ('bytes', 'm', 2)], weight=3 ** (n + 2), opts=o))
    D = 'digit'
    T = [([b'"', 1, b'\\u', ('hex', 4), 1, b'"'], 5), ([b'"\\u', ('hex', 4), b'\\u', ('hex', 4), b'"'], 5), ([1, b'\\u', ('hex', 4), 1], 6),
         ([b'[[', 1, b'],{"', 1, b'":[', 1, b']}]'], 3), ([b'{"', 1, b'":[{"', 1, b'":', 1, b'}]}'], 4), ([b'[[[[', 1, b']]]]'], 0), ([b'[[[[', 1, b']]]]'], 2),
         ([(19, D), 1], 10), ([b'-', (19, D), 1], 10), ([(20, D), 1], 11), ([(1, D), b'.', (3, D), b'e', (2, D), 1], 15), ([(21, D), 1], 15)]
    for t, group in T:
        t = [((x[1], x[0]) if isinstance(x, tuple) and isinstance(x[0], str) else x) for x in t]
        c.add(Job('vH_C19', [('tmpl', 'd', t), ('int', group), ('cbytes', b'')], weight=3000, opts=o))
        if group < 5:
            c.add(Job('vH_C19', [('tmpl', 'd', t), ('int', group), ('bytes', 'm', 1)], weight=3000, opts=o))
    # history deep -> shallow -> deep: a Buffer that was once used on a deep document stays warm for it
    # whatever shallower documents it sees in between (a stack that is trimmed or dropped re-allocates)
    deeps = (70,) if tier == 'quick' else (70, 300, 1100)
    for d in deeps:
        for group in (0, 1, 2, 3):
            for mid in (b'[[]]', b'0', b'{"a":[]}'):
                c.add(Job('vH_C19', [('tmpl', 'd', [b'[' * d, 1, b']' * d]), ('int', group), ('cbytes', mid)], weight=40 * d, opts=o))
    if tier != 'quick':
        # ... and at the deepest nesting the library accepts (a stack-retention threshold anywhere below the limit shows here;
        # about 7 minutes per job)
        deeps = deeps + (9990,)
        for group in (0, 1, 2, 3):
            c.add(Job('vH_C19', [('tmpl', 'd', [b'[' * 9990, 1, b']' * 9990]), ('int', group), ('cbytes', b'[[]]')], weight=40 * 9990, opts=dict(o, nsamples=0), timeout=1500))
    c.bounds = {'N': N, 'groups': 16, 'templates': [_tmplstr([((x[1], x[0]) if isinstance(x, tuple) and isinstance(x[0], str) else x) for x in t]) + ' g%d' % g for t, g in T],
                'history_deep_shallow_deep': 'arrays nested %s deep, then one of [[]] / 0 / {"a":[]} through all five Buffer entry points, then the deep document again' % (list(deeps),)}
    c.must_reach = ['C19.warmed', 'C19.success']
    _std(c, ['allocation sites: the Go compiler\'s escape analysis (go build -gcflags=-m, regenerated each run) decides which make/new/conversion/boxing/closure sites heap-allocate; append beyond capacity, make(map) and fmt calls always do; a non-escaping []byte->string conversion allocates when longer than 32 bytes',
             'warm Buffer = the same call made once before on the same document with a handler that declines every member',
             'float conversion: fp.ParseJSONFloatPrefix is replaced by its contract here; its call-graph closure is scanned for allocation sites instead (coverage.float_closure_sites)'])
    c.outside = ['allocations the compiler introduces without reporting them under -m', 'inputs longer than the bounds']
    c.run_jobs(nproc)
    # static scan: no allocation site in the call-graph closure of the float conversion
    sites = float_closure_alloc_sites(c.prog, getattr(c, 'escape_lines', []))
    c.extra_coverage['float_closure_sites'] = sites
    c.confirm()
    if sites:
        confirm_float_allocs(c, sites)
    return c.finish()


def float_closure_alloc_sites(prog, escape_lines):
    esc = set(escape_lines)
    root = FP + '.ParseJSONFloatPrefix'
    seen = set()
    work = [root]
    sites = []
    while work:
        name = work.pop()
        if name in seen:
            continue
        seen.add(name)
        fn = prog.funcs.get(name)
        if fn is None or fn.extern:
            if name.startswith('fmt.') or name.startswith('strconv.') or name.startswith('strings.'):
                sites.append('call to %s' % name)
            continue
        for b in fn.blocks:
            for ins in b.instrs:
                op = ins['op']
                pos = ins.get('pos', '').replace('/repo/', '')
                if op in ('MakeSlice', 'MakeMap', 'MakeChan'):
                    sites.append('%s %s' % (op, pos))
                elif op == 'MakeClosure' and ins.get('bindings'):
                    sites.append('closure %s' % pos)
                elif op == 'Convert':
                    a, t = prog.types[ins['xt']], prog.types[ins['type']]
                    if (a['kind'], t['kind']) in (('slice', 'string'), ('string', 'slice')):
                        sites.append('conversion %s->%s %s' % (a['str'], t['str'], pos))
                elif op == 'Alloc' and ins.get('heap') and pos in esc:
                    sites.append('moved to heap %s' % pos)
                elif op == 'MakeInterface' and pos in esc:
                    sites.append('boxing %s' % pos)
                elif op in ('Call', 'Defer', 'Go'):
                    cc = ins['call']
                    callee = cc.get('callee')
                    if callee is not None and callee[0] == 3:
                        work.append(callee[1])
                    elif callee is not None and callee[0] == 4 and callee[1] == 'append':
                        sites.append('append %s' % pos)
                    elif 'invoke' in cc:
                        sites.append('dynamic call %s' % pos)
    return sorted(set(sites))


def confirm_float_allocs(c, sites):
    """native confirmation of statically found allocation sites in the float path"""
    from gosym.driver import native_replay
    try:
        out = native_replay([('floatbattery', [], 'vH_C19_floatbattery()')])
    except Exception as e:
        c.unconfirmed.append({'what': 'float closure allocation sites %s' % sites, 'reason': 'battery could not run: %s' % e})
        return
    v = out.get('floatbattery', ('MISSING', ''))
    if v[0] in ('FAIL', 'PANIC'):
        c._report({'kind': 'assert', 'what': 'C19.float-path-allocates ' + v[1] + ' sites=' + '; '.join(sites)[:300], 'pos': '', 'call': 'vH_C19_floatbattery()',
                   'script': [], 'job': 'static scan of the float conversion closure', 'native': v[0] + ' ' + v[1]})
    else:
        c.unconfirmed.append({'what': 'float closure allocation sites %s' % sites, 'reason': 'native battery shows no allocation'})


def check_C18(tier, nproc=None):
    from . import c18
    from gosym.driver import native_replay
    c = Check('C18', tier, level='other')
    # (b) dynamic footprint: symbolic runs that cover every entry point; a store into a package-level
    # object raises the executor's 'global-write' event
    N = 4 if tier == 'quick' else 6
    o = {'float_contract': True}
    for n in range(0, N + 1):
        for which in range(4):
            c.add(Job('vH_C16_inputs', [('bytes', 'd', n), ('int', which)], weight=4 ** n, opts=o))
        c.add(Job('vH_C03', [('bytes', 'd', n), ('int', 0)], weight=4 ** n, opts=o))
    c.must_reach = ['C16.inputs', 'C03.returned']
    c.run_jobs(nproc)
    # (a) static footprint over the SSA of the real packages
    findings, nfuncs, summaries = c18.analyse(c.prog, {RJSON, FP})
    events = sorted(set(e for r in c.results for e in r.get('events', []) if e.startswith('global-write')))
    c.confirm()
    breaches = findings + events
    race = None
    if breaches:
        try:
            out = native_replay([('race', [], 'vH_C18_race()')], race=True, timeout=900)
            race = out.get('__race__') or out.get('race')
        except Exception as e:
            race = ('ERROR', str(e))
        if race and race[0] in ('RACE', 'FAIL', 'PANIC'):
            c._report({'kind': 'assert', 'what': 'C18.shared-mutable-state ' + '; '.join(breaches)[:400], 'pos': '', 'call': 'vH_C18_race()',
                       'script': [], 'job': 'footprint analysis', 'native': '%s %s' % (race[0], race[1][:300])})
        else:
            c.unconfirmed.append({'what': 'footprint breach not confirmed by the race battery', 'breaches': breaches[:10], 'race': str(race)[:200]})
    c.bounds = {'dynamic_runs_N': N}
    c.extra_coverage['explanation'] = ('footprint lemma: (a) static taint analysis over the SSA of %d functions of rjson and internal/fp: no store, map update, copy/append target or '
                                       'writing callee receives memory reachable from a package-level variable outside package init; (b) in the symbolic runs no store hit a package-level object. '
                                       'Interleavings themselves are NOT explored: race freedom of calls sharing only read-only inputs follows from (a),(b) by the Go memory model (DRF-SC), cited.' % nfuncs)
    c.extra_coverage['static_findings'] = findings
    c.extra_coverage['dynamic_global_writes'] = events
    c.extra_coverage['functions_scanned'] = nfuncs
    c.extra_coverage['race_confirmation'] = str(race)[:300] if race else 'not needed (no breach)'
    _std(c, ['Go memory model: data-race-free programs are sequentially consistent (cited, not checked)',
             'sync.Pool is goroutine-safe and per ValueReader', 'the race battery only confirms a reported breach; it never decides'])
    c.outside = ['schedules / interleavings (not explored)', 'synchronised global state (would be reported only if the race battery confirms)']
    return c.finish()


def check_C20(tier, nproc=None):
    c = Check('C20', tier)
    o = {'cost_mode': True, 'float_contract': True, 'no_float_overflow': True}
    PAD = b' ' * (1 << 16)
    LONG = b'a' * 16000
    c.describe_job = True
    shapes = [
        # (small, big, entry points, padded with 1 MiB of trailing bytes?)
        (b'[{}]', b'[{},{}]', [0, 2], False), (b'{"a":{}}', b'{"a":{},"b":{}}', [0, 1], False), (b'[[]]', b'[[],[]]', [0, 2], False),
        (b'[{"a":1}]', b'[{"a":1},{"a":1}]', [0, 2], False), (b'[1]', b'[1,1]', [0, 2], False), (b'{"a":1}', b'{"a":1,"b":1}', [0, 1], False),
        (b'[[1,2,3]]', b'[[1,2,3],[]]', [0, 2], False), (b'[{"a":1,"b":2}]', b'[{"a":1,"b":2},{}]', [0, 2], False),
        (b'["\\n"]', b'["\\n","\\n"]', [0, 2], True), (b'[["\\n"]]', b'[["\\n"],["\\n"]]', [0, 2], True),
        (b'["\\n"]', b'["\\n",["\\n"]]', [0, 2], True), (b'{"a":"\\n"}', b'{"a":"\\n","b":{"a":"\\n"}}', [0, 1], True),
        (b'[{"\\n":1}]', b'[{"\\n":1},{"\\n":1}]', [0], True),
        (b'"' + LONG + b'\\u00e9' * 250 + b'"', b'"' + LONG + b'\\u00e9' * 251 + b'"', [3, 0], False),
        (b'"' + LONG + b'\\n"', b'"' + LONG + b'\\n\\n"', [3], False),
        (b'[1]', b'[1,[1]]', [4, 5, 6], True), (b'[[1]]', b'[[1],[1]]', [4, 5, 6], True),
    ]
    if tier != 'quick':
        shapes += [(b'[[{}]]', b'[[{}],[{}]]', [0, 2], False), (b'{"a":[{}]}', b'{"a":[{}],"b":[{}]}', [0, 1], False),
                   (b'[{"a":{}}]', b'[{"a":{}},{"a":{}}]', [0], False), (b'["\\n",["\\n"]]', b'["\\n",["\\n",["\\n"]]]', [0], True),
                   (b'[["\\u00e9"]]', b'[["\\u00e9"],["\\u00e9"],["\\u00e9"]]', [0], True)]
    for small, big, whichs, padded in shapes:
        pad = PAD if padded else b''
        for which in whichs:
            lab = 'vH_C20(%s -> %s%s, entry %d)' % (small[:24].decode('latin1'), big[:40].decode('latin1'), ' +64KiB' if padded else '', which)
            c.add(Job('vH_C20', [('cbytes', small + pad), ('cbytes', big + pad), ('int', which)], label=lab, weight=len(big) + len(pad), opts=o))
    # one call (successful or failing) from an arbitrary reader state must use up the hints it pays for
    CALLS = [(b'x', [0, 1, 2]), (b'[1,', [0, 2]), (b'[', [0, 2]), (b'null', [0, 1, 2]), (b'{"a":1', [0, 1]), (b'{"a":1}', [0, 1]), (b'[1]', [0, 2]), (b'[[1,', [0, 2]),
             (b'{"a":{"b":1,', [0, 1]), (b'[{"a":[1,2],"b":{}},[', [0, 2]), (b'[[],{}]', [0, 2]), (b'', [0, 1, 2])]
    if tier != 'quick':
        CALLS += [(b'{"a":[1,{"b":2}],"c":', [0, 1]), (b'[[[1],[2]],[[3', [0, 2]), (b' [1,2,3] ', [0, 2]), (b'{"a":null}', [0, 1]), (b'[null', [0, 2]), (b'{', [0, 1])]
    for doc, whichs in CALLS:
        for which in whichs:
            c.add(Job('vH_C20_call', [('cbytes', doc), ('int', which)], label='vH_C20_call(%s, entry %d)' % (doc.decode('latin1'), which), weight=20 + len(doc), opts=o))
    # one growth step of the result slice at several (concrete) fill levels: what it allocates must be paid for by
    # the spare capacity it buys, whatever the level
    Ls = (0, 7, 100, 5000, 200000) if tier == 'quick' else (0, 1, 7, 64, 100, 1000, 4096, 5000, 65536, 200000, 1000000)
    for L in Ls:
        c.add(Job('vH_C20_growstep', [('int', L)], label='vH_C20_growstep(L=%d)' % L, weight=10 + L // 1000, opts=o))
    # the same for the nesting stack of the handler machines (they have no depth limit): thorough only, the input
    # has to be nested as deep as the stack is long
    SL = () if tier == 'quick' else (100, 5000, 40000)
    for L in SL:
        c.add(Job('vH_C20_stackstep', [('cbytes', b'[' * (L + 2)), ('int', L)], label='vH_C20_stackstep(L=%d)' % L, weight=50 + L // 10, opts=o))
    c.bounds = {'stack_growth_step_levels': list(SL), 'growth_step_levels': list(Ls), 'shapes': len(shapes), 'hints': 'six size hints (reader and one pooled child) free in [0, 2^20]', 'constants': 'A = 1536 bytes per added input byte, B = 4096',
                'cost_model': 'make([]T, n): n*sizeof(T); make(map, n): 48n+48; append beyond capacity: 2*needed*sizeof(T); []byte->string: len; new(T): sizeof(T)'}
    c.bounds['single_calls'] = '%d documents (well-formed, truncated, wrong type, null, empty) through ReadValue/ReadObject/ReadArray from the same arbitrary reader state: cost + potential left - potential found <= A*len + B' % len(CALLS)
    c.must_reach = ['C20.marginal', 'C20.growstep', 'C20.call']
    _std(c, ['allocation sizes follow the cost model above (runtime size classes and map bucket layout are not modelled)',
             'any non-negative size hints are reachable (decode a container of that size first); the native replay sets the fields directly',
             'marginal cost of one more member / nesting level / escape bounded by A*added bytes + B is a sufficient condition for linear total cost on these shape families'])
    c.outside = ['document shapes outside the listed families', 'amortised growth of the nesting stack beyond the listed fill levels (quick tier: not at all; a growth step of the stack needs an input nested as deep as the stack is long)', 'growth steps at fill levels other than the listed ones', 'GC behaviour, allocator size classes']
    c.run_jobs(nproc)
    c.confirm()
    return c.finish()
