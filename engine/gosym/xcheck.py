"""Cross-solver sampling: a log-spaced sample of the queries a job discharges is written out as
SMT-LIB2 and re-decided by two independent solver builds (cvc5 1.0 and the system z3 4.8.12);
the in-process z3 5.x verdict must not be contradicted by both. This guards the trusted base
(one solver, one build) and the SMT-LIB printing path; it decides nothing about the property."""
import os, subprocess, tempfile


class XSampler:
    def __init__(self, per_kind=3, size_limit=2_000_000):
        self.counts = {}
        self.saved = []          # (backend, verdict, smt2 text)
        self.per_kind = per_kind
        self.size_limit = size_limit

    def offer(self, backend, verdict, solver):
        """called while the assertions are still on the solver's stack"""
        if verdict not in ('sat', 'unsat'):
            return
        k = (backend, verdict)
        n = self.counts[k] = self.counts.get(k, 0) + 1
        # the 1st, 7th, 49th ... query of each kind
        m = 1
        idx = 0
        while m < n:
            m *= 7
            idx += 1
        if m != n or idx >= self.per_kind:
            return
        try:
            txt = solver.to_smt2()
        except Exception:
            return
        if len(txt) > self.size_limit:
            return
        self.saved.append((backend, verdict, txt))

    def run(self, tlimit_s=10):
        out = {'queries': 0, 'agree_cvc5': 0, 'agree_z3_4_8': 0, 'inconclusive_cvc5': 0, 'inconclusive_z3_4_8': 0, 'disagreements': []}
        for backend, verdict, txt in self.saved:
            out['queries'] += 1
            with tempfile.NamedTemporaryFile('w', suffix='.smt2', delete=False, dir=os.environ.get('TMPDIR', '/tmp')) as f:
                # z3's printer emits no set-logic; cvc5 wants one
                f.write('(set-logic ALL)\n' + txt)
                name = f.name
            votes = {}
            try:
                for tag, cmd in (('cvc5', ['cvc5', '--tlimit=%d' % (tlimit_s * 1000), name]), ('z3_4_8', ['/usr/bin/z3', '-T:%d' % tlimit_s, name])):
                    try:
                        p = subprocess.run(cmd, capture_output=True, text=True, timeout=tlimit_s + 5)
                        lines = [l.strip() for l in p.stdout.splitlines()]
                        ans = None
                        if not any(l.startswith('(error') for l in lines):
                            for l in lines:
                                if l in ('sat', 'unsat'):
                                    ans = l
                                    break
                    except Exception:
                        ans = None
                    votes[tag] = ans
                    if ans is None:
                        out['inconclusive_' + tag] += 1
                    elif ans == verdict:
                        out['agree_' + tag] += 1
            finally:
                os.unlink(name)
            against = [t for t, a in votes.items() if a is not None and a != verdict]
            if against:
                out['disagreements'].append({'backend': backend, 'z3_5': verdict, 'others': votes, 'smt2_head': txt[:300]})
        return out
