#!/usr/bin/env python3
"""run_seeded.py [--tier quick|thorough] [--props C01,C02] [names...]
Applies each seeded change under /verif/seeded to /repo, runs the check(s) of the property it breaks,
undoes the change, and records in meta.json which check detected it."""
import json, os, subprocess, sys, time
args = sys.argv[1:]
tier = 'quick'
props = None
names = []
i = 0
while i < len(args):
    if args[i] == '--tier':
        tier = args[i + 1]; i += 2
    elif args[i] == '--props':
        props = args[i + 1].split(','); i += 2
    else:
        names.append(args[i]); i += 1
root = '/verif/seeded'
REPO = os.environ.get('VERIF_REPO', '/repo')
for name in sorted(os.listdir(root)):
    d = os.path.join(root, name)
    if not os.path.isdir(d) or (names and name not in names):
        continue
    meta = json.load(open(os.path.join(d, 'meta.json')))
    pids = props or meta.get('check_with') or [meta['property']]
    if subprocess.run(['git', '-C', REPO, 'diff', '--quiet']).returncode != 0:
        print(REPO + ' dirty; abort'); sys.exit(2)
    r = subprocess.run(['git', '-C', REPO, 'apply', os.path.join(d, 'patch.diff')])
    if r.returncode != 0:
        print(name, 'APPLY-FAILED'); continue
    try:
        for pid in pids:
            t = time.time()
            r = subprocess.run(['python3-vt', '/verif/check.py', pid, '--tier', tier], capture_output=True, text=True, cwd='/verif')
            viol = [l for l in r.stdout.splitlines() if l.startswith('VIOLATION')]
            detected = r.returncode == 1 and bool(viol)
            print('%s vs %s/%s: %s (exit %d, %.0fs) %s' % (name, pid, tier, 'DETECTED' if detected else 'missed', r.returncode, time.time() - t,
                                                    (r.stdout.splitlines()[[i for i, l in enumerate(r.stdout.splitlines()) if l.startswith('VIOLATION')][0] + 1][:160] if viol else '')))
            det = meta.setdefault('detection', {})
            det['%s/%s' % (pid, tier)] = {'detected': detected, 'exit': r.returncode, 'witness': (r.stdout.splitlines()[[i for i, l in enumerate(r.stdout.splitlines()) if l.startswith('VIOLATION')][0] + 1].strip()[:300] if viol else None)}
            if detected and not meta.get('detected_by'):
                meta['detected_by'] = '%s %s' % (pid, tier)
    finally:
        subprocess.run(['git', '-C', REPO, 'checkout', '--', '.'])
        subprocess.run(['git', '-C', REPO, 'clean', '-fdq'])
    json.dump(meta, open(os.path.join(d, 'meta.json'), 'w'), indent=1)
