//go:build verif && verifnative

package fp

import "math/big"

