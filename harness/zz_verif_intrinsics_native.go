//go:build verif && verifnative

package rjson

import (
	"math"
	"runtime"
	"runtime/debug"
)

// Native definitions of the harness intrinsics, used to replay a solver model
// against the real build: nondeterministic choices are read from vScript in
// the order the executor made them.

var (
	vScript   []int64
	vCursor   int
	vFailures []string
	vReached  []string
	vExhausted int
)

type vAssumeFailed struct{}

func vNext(name string) int64 {
	if vCursor >= len(vScript) {
		// a sample taken in the middle of a path has no recorded choices for the
		// rest of it: any value is a legitimate completion
		vExhausted++
		return 0
	}
	v := vScript[vCursor]
	vCursor++
	return v
}

func vNondetInt(name string) int   { return int(vNext(name)) }
func vNondetBool(name string) bool { return vNext(name) != 0 }
func vNondetByte(name string) byte { return byte(vNext(name)) }
func vAssume(c bool) {
	if !c {
		panic(vAssumeFailed{})
	}
}
func vAssert(c bool, id string) {
	if !c {
		vFailures = append(vFailures, id)
	}
}
func vReach(id string) { vReached = append(vReached, id) }

func vReset(script []int64) {
	vScript = script
	vCursor = 0
	vFailures = nil
	vReached = nil
	vExhausted = 0
}

// Native meaning of the number contract: the real conversion.
func vNumValue(lit []byte) float64 {
	f, _, _ := ReadFloat64(lit)
	return f
}
func vNumOverflows(lit []byte) bool {
	_, _, err := ReadFloat64(lit)
	return err != nil
}

// allocation measurement for C19 replays (mallocs between watch on/off)
var (
	vMemStats   runtime.MemStats
	vMallocs0   uint64
	vAllocDelta int
)

func vAllocWatch(on bool) {
	runtime.ReadMemStats(&vMemStats)
	if on {
		vMallocs0 = vMemStats.Mallocs
	} else {
		vAllocDelta = int(vMemStats.Mallocs - vMallocs0)
	}
}
func vAllocs() int { return vAllocDelta }

// C20 replays: bytes allocated since the last reset (runtime.MemStats.TotalAlloc)
var vTotalAlloc0 uint64

func vCostReset() {
	// no collection while a cost is being measured: a collection empties sync.Pool (pooled child readers and their
	// scratch buffers are then allocated again), which made the measured difference depend on GC timing under load
	debug.SetGCPercent(-1)
	runtime.ReadMemStats(&vMemStats)
	vTotalAlloc0 = vMemStats.TotalAlloc
}
func vCostBytes() int {
	runtime.ReadMemStats(&vMemStats)
	return int(vMemStats.TotalAlloc - vTotalAlloc0)
}
func vAssertCost(c bool, id string) { vAssert(c, id) }

// identical IEEE bit patterns (distinguishes -0 from +0)
func vFloatSame(a, b float64) bool { return math.Float64bits(a) == math.Float64bits(b) }
