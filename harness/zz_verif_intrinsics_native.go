//go:build verif && verifnative

package rjson

import "fmt"

// Native definitions of the harness intrinsics, used to replay a solver model
// against the real build: nondeterministic choices are read from vScript in
// the order the executor made them.

var (
	vScript   []int64
	vCursor   int
	vFailures []string
	vReached  []string
)

type vAssumeFailed struct{}

func vNext(name string) int64 {
	if vCursor >= len(vScript) {
		panic(fmt.Sprintf("verif replay: script exhausted at %s", name))
	}
	v := vScript[vCursor]
	vCursor++
	return v
}

func vNondetInt(name string) int   { return int(vNext(name)) }
func vNondetBool(name string) bool { return vNext(name) != 0 }
func vNondetByte(name string) byte { return byte(vNext(name)) }
func vAssume(c bool) {
	if !c {
		panic(vAssumeFailed{})
	}
}
func vAssert(c bool, id string) {
	if !c {
		vFailures = append(vFailures, id)
	}
}
func vReach(id string) { vReached = append(vReached, id) }

func vReset(script []int64) {
	vScript = script
	vCursor = 0
	vFailures = nil
	vReached = nil
}
