#!/bin/bash
# confirm_mutant.sh <srcdir> <k> <propid> <destname>
# Confirms a seeded change in a scratch worktree of /repo: (1) applies and compiles,
# (2) the repository's own suite passes with it, (3) the demonstration fails with it
# and (4) passes without it. On success stores it under /verif/seeded/<destname>/.
set -u
export GOFLAGS=-mod=mod GOPROXY=off GOSUMDB=off GOTOOLCHAIN=local
src=$1; k=$2; prop=$3; dest=$4
wt=$(mktemp -d /tmp/confirm-XXXXXX)
rmdir "$wt"
git -C /repo worktree add --detach "$wt" HEAD >/dev/null 2>&1 || { echo "worktree failed"; exit 2; }
cleanup() { git -C /repo worktree remove --force "$wt" >/dev/null 2>&1; rm -rf "$wt"; }
trap cleanup EXIT
diff="$src/m$k.diff"; demo="$src/m${k}_demo_test.go"
dir=$(head -1 "$demo" | sed -n 's,^// dir: *,,p'); dir=${dir:-.}
cd "$wt"
git apply "$diff" || { echo "RESULT $dest apply-failed"; exit 1; }
go build ./... || { echo "RESULT $dest build-failed"; exit 1; }
suite=$(go test -vet=off -count=1 ./... 2>&1); src_rc=$?
if [ $src_rc -ne 0 ]; then echo "$suite" | tail -20; echo "RESULT $dest suite-fails-with-patch"; exit 1; fi
cp "$demo" "$dir/zz_demo_test.go"
with=$(go test -vet=off -count=1 -run "TestDemoM$k\$" ./$dir 2>&1); with_rc=$?
git apply -R "$diff"
without=$(go test -vet=off -count=1 -run "TestDemoM$k\$" ./$dir 2>&1); without_rc=$?
if [ $with_rc -eq 0 ]; then echo "RESULT $dest demo-passes-with-patch"; exit 1; fi
if [ $without_rc -ne 0 ]; then echo "$without" | tail; echo "RESULT $dest demo-fails-without-patch"; exit 1; fi
mkdir -p /verif/seeded/$dest
cp "$diff" /verif/seeded/$dest/patch.diff
cp "$demo" /verif/seeded/$dest/demo_test.go
cp "$src/m$k.md" /verif/seeded/$dest/notes.md 2>/dev/null
python3 - "$prop" "$dest" "$dir" "$k" <<'PY'
import json,sys,subprocess,datetime
prop,dest,d,k=sys.argv[1:5]
notes=open('/verif/seeded/%s/notes.md'%dest).read() if True else ''
meta={"property":prop,"name":dest,"demo_dir":d,"demo_test":"TestDemoM"+k,
 "needs_to_manifest":notes.strip()[:1500],
 "confirmed":{"applies_and_builds":True,"suite_passes_with_patch":"go test -vet=off -count=1 ./... (exit 0)",
   "demo_fails_with_patch":True,"demo_passes_without_patch":True,
   "how":"tools/confirm_mutant.sh in a scratch worktree of /repo HEAD, removed afterwards"},
 "detected_by":None}
json.dump(meta,open('/verif/seeded/%s/meta.json'%dest,'w'),indent=1)
PY
echo "RESULT $dest confirmed"
