#!/bin/bash
# try_mutant.sh <patch.diff> <pid> [tier] : apply a seeded change to /repo, run the check, always undo it.
diff=$1; pid=$2; tier=${3:-quick}
cd /repo || exit 2
if ! git diff --quiet; then echo "/repo has local changes; refusing"; exit 2; fi
git apply "$diff" || { echo "apply failed"; exit 2; }
trap 'git -C /repo checkout -- . ' EXIT
cd /verif && python3-vt check.py $pid --tier $tier
echo "exit=$?"
