"""Integer-arithmetic (LIA) translation of the bit-vector term DAG.

Every term denotes its *unsigned* machine value as a mathematical integer.
Wrap-around is made explicit: where interval analysis cannot show that a
result fits its width, a conditional correction (single wrap) or a fresh
quotient/remainder pair (x = q*2^w + r, 0 <= r < 2^w) is introduced. This keeps
the mod-2^w semantics exactly while letting z3's linear arithmetic decide the
Horner / multiply-by-constant / shift-by-constant kernels on which bit-blasting
does not terminate.
"""
import os, sys, time
if hasattr(sys, "set_int_max_str_digits"):
    sys.set_int_max_str_digits(0)
import z3

from .terms import Term, mask
from .mdd import TRUE, FULL, mask_ranges


class LiaUnsupported(Exception):
    pass


class LiaSolver:
    def __init__(self, store, timeout_ms=60000, seed=0):
        self.store = store
        self.s = z3.SolverFor('QF_LIA') if False else z3.Solver()
        self.s.set('timeout', timeout_ms)
        self.timeout_ms = timeout_ms
        self.prefer_fresh = False
        self.xs = None
        if seed:
            self.s.set('random_seed', seed & 0x7fffffff)
        self.zvars = {}
        self.side = []          # side constraints (definitions of q/r pairs, var ranges) not yet asserted
        self.nfresh = 0
        self.stats = {'sat': 0, 'unsat': 0, 'unknown': 0, 'solver_s': 0.0}
        self.memo = {}          # term id -> (expr, lo, hi, sideconstraints)
        self.mddmemo = {}
        self.prodmemo = {}
        self.last_model = None

    # ------------------------------------------------------------------
    def zvar(self, v):
        z = self.zvars.get(v.idx)
        if z is None:
            if v.w == 0:
                z = z3.Bool('L' + v.name)
            else:
                z = z3.Int('L' + v.name)
            self.zvars[v.idx] = z
        return z

    def fresh(self, prefix):
        self.nfresh += 1
        return z3.Int('%s!%d' % (prefix, self.nfresh))

    # conversion returns (expr, lo, hi, side) where side is a tuple of constraints
    def conv(self, t):
        if t.__class__ is not Term:
            if t is True or t is False:
                return (z3.BoolVal(t), 0, 1, ())
            return (z3.IntVal(t), t, t, ())
        r = self.memo.get(t.id)
        if r is not None:
            return r
        stack = [t]
        memo = self.memo
        while stack:
            x = stack[-1]
            if x.id in memo:
                stack.pop()
                continue
            pend = False
            for a in x.args:
                if a.__class__ is Term and a.id not in memo:
                    stack.append(a)
                    pend = True
            if pend:
                continue
            memo[x.id] = self._conv(x)
            stack.pop()
        return memo[t.id]

    def _arg(self, a):
        if a.__class__ is Term:
            return self.memo[a.id]
        if a is True or a is False:
            return (z3.BoolVal(a), 0, 1, ())
        return (z3.IntVal(a), a, a, ())

    def _wrap(self, e, lo, hi, w, side):
        """reduce integer expression e in [lo,hi] modulo 2^w"""
        M = 1 << w
        if lo >= 0 and hi < M:
            return (e, lo, hi, side)
        if lo >= 0 and hi < 2 * M:
            return (z3.If(e >= M, e - M, e), 0, M - 1, side)
        if lo >= -M and hi < M:
            return (z3.If(e < 0, e + M, e), 0, M - 1, side)
        q = self.fresh('q')
        r = self.fresh('r')
        qlo, qhi = lo // M, hi // M
        side = side + (e == q * M + r, r >= 0, r < M, q >= qlo, q <= qhi)
        return (r, 0, M - 1, side)

    def _divpow2(self, e, lo, hi, k, side):
        """(floor(e / 2^k), e mod 2^k) for e >= 0"""
        if k == 0:
            return (e, lo, hi), (z3.IntVal(0), 0, 0), side
        K = 1 << k
        if hi < K:
            return (z3.IntVal(0), 0, 0), (e, lo, hi), side
        q = self.fresh('dq')
        r = self.fresh('dr')
        side = side + (e == q * K + r, r >= 0, r < K, q >= lo // K, q <= hi // K)
        return (q, lo // K, hi // K), (r, 0, min(K - 1, hi)), side

    def _conv(self, t):
        op, w, a = t.op, t.w, t.args
        if op == 'var':
            v = self.store.vars[a[0]]
            z = self.zvar(v)
            if v.w == 0:
                return (z, 0, 1, ())
            return (z, 0, (1 << v.w) - 1, (z >= 0, z <= (1 << v.w) - 1))
        A = [self._arg(x) for x in a if not isinstance(x, bool) or True]
        if op in ('add', 'sub'):
            (x, xl, xh, xs), (y, yl, yh, ys) = A[0], A[1]
            if op == 'add':
                return self._wrap(x + y, xl + yl, xh + yh, w, xs + ys)
            return self._wrap(x - y, xl - yh, xh - yl, w, xs + ys)
        if op == 'mul' or op == 'mulhi':
            (x, xl, xh, xs), (y, yl, yh, ys) = A[0], A[1]
            cands = [xl * yl, xl * yh, xh * yl, xh * yh]
            lo, hi = min(cands), max(cands)
            if op == 'mul' and lo >= 0 and hi < (1 << w):
                return (x * y, lo, hi, xs + ys)
            # one shared quotient/remainder pair per product (mul takes r, mulhi takes q)
            key = (a[0].id if a[0].__class__ is Term else ('c', a[0]), a[1].id if a[1].__class__ is Term else ('c', a[1]), w)
            ent = self.prodmemo.get(key)
            if ent is None:
                (q, ql, qh), (r, rl, rh), side = self._divpow2(x * y, lo, hi, w, xs + ys)
                ent = self.prodmemo[key] = ((q, ql, qh), (r, rl, rh), side)
            (q, ql, qh), (r, rl, rh), side = ent
            if op == 'mul':
                return (r, rl, rh, side)
            return (q, ql, qh, side)
        if op == 'neg':
            (x, xl, xh, xs) = A[0]
            return self._wrap(0 - x, -xh, -xl, w, xs)
        if op == 'not':
            (x, xl, xh, xs) = A[0]
            M = (1 << w) - 1
            return (M - x, M - xh, M - xl, xs)
        if op == 'zext':
            return A[0]
        if op == 'trunc':
            (x, xl, xh, xs) = A[0]
            if xh < (1 << w):
                return A[0]
            _, (r, rl, rh), side = self._divpow2(x, xl, xh, w, xs)
            return (r, rl, rh, side)
        if op == 'sext':
            (x, xl, xh, xs) = A[0]
            fw = a[1]
            half = 1 << (fw - 1)
            if xh < half:
                return A[0]
            return (z3.If(x >= half, x + (1 << w) - (1 << fw), x), 0, (1 << w) - 1, xs)
        if op == 'shl':
            if a[1].__class__ is Term:
                raise LiaUnsupported('shl by symbolic amount')
            (x, xl, xh, xs) = A[0]
            k = a[1]
            if k >= w:
                return (z3.IntVal(0), 0, 0, ())
            return self._wrap(x * (1 << k), xl << k, xh << k, w, xs)
        if op == 'lshr':
            if a[1].__class__ is Term:
                raise LiaUnsupported('lshr by symbolic amount')
            (x, xl, xh, xs) = A[0]
            k = a[1]
            if k >= w:
                return (z3.IntVal(0), 0, 0, ())
            (q, ql, qh), _, side = self._divpow2(x, xl, xh, k, xs)
            return (q, ql, qh, side)
        if op == 'and':
            # supported: low masks 2^k-1, single-bit / high masks via shifts, const&const
            x, y = a[0], a[1]
            if x.__class__ is not Term:
                x, y = y, x
                A = [A[1], A[0]]
            if y.__class__ is Term:
                raise LiaUnsupported('and of two symbolic values')
            (e, el, eh, es) = A[0]
            m = y
            if m == 0:
                return (z3.IntVal(0), 0, 0, ())
            if eh <= m and (m & (m + 1)) == 0:
                return A[0]
            if (m & (m + 1)) == 0:      # low mask
                k = m.bit_length()
                _, (r, rl, rh), side = self._divpow2(e, el, eh, k, es)
                return (r, rl, rh, side)
            # contiguous mask  ((2^j-1) << k)
            k = (m & -m).bit_length() - 1
            mm = m >> k
            if (mm & (mm + 1)) == 0:
                j = mm.bit_length()
                (q, ql, qh), _, side = self._divpow2(e, el, eh, k, es)
                _, (r, rl, rh), side = self._divpow2(q, ql, qh, j, side)
                return (r * (1 << k), rl << k, rh << k, side)
            raise LiaUnsupported('and with mask %x' % m)
        if op == 'or' or op == 'xor':
            # supported when the operands provably occupy disjoint bit ranges: then it is an addition
            (x, xl, xh, xs), (y, yl, yh, ys) = A[0], A[1]
            tx, ty = self._tz(a[0]), self._tz(a[1])
            if xh < (1 << ty) or yh < (1 << tx):
                return (x + y, xl + yl, xh + yh, xs + ys)
            # or-ing a single constant bit that the other operand provably does not reach
            for (p, pl, ph, cst) in ((x, xl, xh, a[1]), (y, yl, yh, a[0])):
                if cst.__class__ is not Term and cst and (cst & (cst - 1)) == 0 and ph < cst and op == 'or':
                    return (p + cst, pl + cst, ph + cst, xs + ys)
            # general single-bit constant: extract that bit with two divisions
            for (pa, cst) in ((A[0], a[1]), (A[1], a[0])):
                if cst.__class__ is not Term and cst and (cst & (cst - 1)) == 0:
                    (p, pl, ph, ps) = pa
                    k = cst.bit_length() - 1
                    (q, ql, qh), _, side = self._divpow2(p, pl, ph, k, ps)
                    _, (bit, _, _), side = self._divpow2(q, ql, qh, 1, side)
                    if op == 'or':
                        return (p + (1 - bit) * cst, pl, ph + cst, side)
                    return (p + (1 - 2 * bit) * cst, max(pl - cst, 0), ph + cst, side)
            if op == 'xor' and xh <= 1 and yh <= 1:
                return (z3.If(x == y, 0, 1), 0, 1, xs + ys)
            if op == 'or' and xh <= 1 and yh <= 1:
                return (z3.If(z3.And(x == 0, y == 0), 0, 1), 0, 1, xs + ys)
            raise LiaUnsupported('%s of overlapping values' % op)
        if op in ('eq', 'ne'):
            (x, xl, xh, xs), (y, yl, yh, ys) = A[0], A[1]
            e = (x == y) if op == 'eq' else (x != y)
            return (e, 0, 1, xs + ys)
        if op in ('ult', 'ule'):
            (x, xl, xh, xs), (y, yl, yh, ys) = A[0], A[1]
            return ((x < y) if op == 'ult' else (x <= y), 0, 1, xs + ys)
        if op in ('slt', 'sle'):
            ow = a[2]
            half = 1 << (ow - 1)
            (x, xl, xh, xs), (y, yl, yh, ys) = A[0], A[1]
            sx = x if xh < half else z3.If(x >= half, x - (1 << ow), x)
            sy = y if yh < half else z3.If(y >= half, y - (1 << ow), y)
            return ((sx < sy) if op == 'slt' else (sx <= sy), 0, 1, xs + ys)
        if op == 'band':
            return (z3.And(A[0][0], A[1][0]), 0, 1, A[0][3] + A[1][3])
        if op == 'bor':
            return (z3.Or(A[0][0], A[1][0]), 0, 1, A[0][3] + A[1][3])
        if op == 'bnot':
            return (z3.Not(A[0][0]), 0, 1, A[0][3])
        if op == 'beq':
            return (A[0][0] == A[1][0], 0, 1, A[0][3] + A[1][3])
        if op == 'b2i':
            return (z3.If(A[0][0], 1, 0), 0, 1, A[0][3])
        if op == 'ite':
            (c, _, _, cs), (x, xl, xh, xs), (y, yl, yh, ys) = A
            return (z3.If(c, x, y), min(xl, yl), max(xh, yh), cs + xs + ys)
        if op == 'select':
            cells, ew = self.store.tabs[a[0]]
            (i, il, ih, isd) = self._arg(a[1])
            vals = [int(c) for c in cells]
            runs = []
            j = 0
            n = len(vals)
            while j < n:
                k = j
                while k + 1 < n and vals[k + 1] == vals[j]:
                    k += 1
                runs.append((j, k, vals[j]))
                j = k + 1
            isbool = (ew == 0)
            mk = (lambda v: z3.BoolVal(bool(v))) if isbool else (lambda v: z3.IntVal(v))
            res = mk(runs[-1][2])
            for lo, hi, v in reversed(runs[:-1]):
                res = z3.If(i <= hi, mk(v), res)
            return (res, min(vals), max(vals), isd)
        if op in ('udiv', 'urem'):
            if a[1].__class__ is Term:
                raise LiaUnsupported('division by symbolic value')
            (x, xl, xh, xs) = A[0]
            d = a[1]
            q = self.fresh('uq')
            r = self.fresh('ur')
            side = xs + (x == q * d + r, r >= 0, r < d, q >= xl // d, q <= xh // d)
            if op == 'udiv':
                return (q, xl // d, xh // d, side)
            return (r, 0, min(d - 1, xh), side)
        raise LiaUnsupported('op ' + op)

    def _tz(self, x):
        """number of provably-zero low bits of a value"""
        if x.__class__ is not Term:
            return (x & -x).bit_length() - 1 if x else 1 << 20
        if x.op == 'shl' and x.args[1].__class__ is not Term:
            return x.args[1]
        if x.op == 'mul':
            for y in x.args:
                if y.__class__ is not Term and y and (y & (y - 1)) == 0:
                    return y.bit_length() - 1
        return 0

    # ------------------------------------------------------------------
    def mdd(self, node):
        if node is None:
            return z3.BoolVal(False)
        if node is TRUE:
            return z3.BoolVal(True)
        r = self.mddmemo.get(node.id)
        if r is not None:
            return r
        parts = []
        for m, ch in node.edges:
            mz = self.mask(node.idx, m)
            parts.append(mz if ch is TRUE else z3.And(mz, self.mdd(ch)))
        r = z3.Or(*parts) if len(parts) != 1 else parts[0]
        self.mddmemo[node.id] = r
        return r

    def bytevar(self, order):
        for v in self.store.vars:
            if v.kind == 'byte' and v.order == order:
                return self.zvar(v)
        raise KeyError(order)

    def mask(self, order, m):
        b = self.bytevar(order)
        if m == FULL:
            return z3.BoolVal(True)
        rs = mask_ranges(m)
        rn = mask_ranges(FULL & ~m)
        neg = False
        if len(rn) < len(rs):
            rs, neg = rn, True
        parts = []
        for lo, hi in rs:
            if lo == hi:
                parts.append(b == lo)
            else:
                parts.append(z3.And(b >= lo, b <= hi))
        f = z3.Or(*parts) if len(parts) != 1 else parts[0]
        return z3.Not(f) if neg else f

    # ------------------------------------------------------------------
    def check(self, pc, extras=(), conds=(), raw=()):
        fs = list(raw)
        if pc is None:
            return 'unsat'
        if pc is not TRUE:
            fs.append(self.mdd(pc))
        for t in tuple(extras) + tuple(conds):
            if t is True:
                continue
            if t is False:
                return 'unsat'
            e, _, _, side = self.conv(t)
            fs.append(e)
            fs.extend(side)
        # ranges of all byte vars mentioned (cheap: assert for all byte vars)
        for v in self.store.vars:
            if v.idx in self.zvars and v.w > 0:
                z = self.zvars[v.idx]
                fs.append(z >= 0)
                fs.append(z <= (1 << v.w) - 1)
        t0 = time.time()
        r = None
        if not self.prefer_fresh:
            self.s.push()
            try:
                for f in fs:
                    self.s.add(f)
                r = str(self.s.check())
                self.last_model = self.s.model() if r == 'sat' else None
                if self.xs is not None:
                    self.xs.offer('lia', r, self.s)
            finally:
                self.s.pop()
        if r not in ('sat', 'unsat'):
            # the push/pop solver runs z3's incremental core without preprocessing; a fresh solver gets the
            # full tactic pipeline (solve-eqs, propagate-values ...) and decides many definitional systems at once
            s2 = z3.Solver()
            s2.set('timeout', self.timeout_ms)
            for f in fs:
                s2.add(f)
            r = str(s2.check())
            self.last_model = s2.model() if r == 'sat' else None
            if self.xs is not None:
                self.xs.offer('lia', r, s2)
            self.stats['fresh'] = self.stats.get('fresh', 0) + 1
            if r not in ('sat', 'unsat') and os.environ.get('VERIF_LIA_DEBUG'):
                sys.stderr.write('LIA unknown: %s after %.1fs, %d formulas\n' % (s2.reason_unknown(), time.time() - t0, len(fs)))
                if os.environ.get('VERIF_LIA_DEBUG') != '1':
                    open(os.environ['VERIF_LIA_DEBUG'], 'w').write(s2.to_smt2())
        self.stats['solver_s'] += time.time() - t0
        if r not in ('sat', 'unsat'):
            r = 'unknown'
        self.stats[r] += 1
        return r

    def model_assign(self):
        out = {}
        for v in self.store.vars:
            z = self.zvars.get(v.idx)
            if z is None:
                out[v.idx] = False if v.w == 0 else 0
                continue
            val = self.last_model.eval(z, model_completion=True)
            out[v.idx] = z3.is_true(val) if v.w == 0 else val.as_long() & ((1 << v.w) - 1)
        return out
