//go:build verif

package rjson

// Harness that names a ValueReader internal (the result slice under construction). Optional: if the tree no
// longer has the field this file is left out of the overlay and the jobs report 'harness not present'.

// ---- C20: one growth step of the array under construction is amortised -------------------------
// The reader has collected L elements and its result slice is full. Reading one more element may
// reallocate, but the bytes it allocates must be paid for by the spare capacity it buys: a policy that
// grows by a fixed amount makes this ratio grow with L (and decoding quadratic), a geometric one keeps
// it bounded. K = 8 leaves room for Go's own 1.25x growth of large slices (ratio 5).
func vH_C20_growstep(L int) {
	var r ValueReader
	r.arrVal = make([]interface{}, L)
	vCostReset()
	_, err := r.HandleArrayValue([]byte("1"))
	cost := vCostBytes()
	vReach("C20.growstep")
	if err != nil {
		return
	}
	slack := cap(r.arrVal) - len(r.arrVal)
	vAssert(len(r.arrVal) == L+1, "C20.growstep-appended")
	vAssertCost(cost <= 8*16*(slack+1)+4096, "C20.growth-step-amortised")
}
