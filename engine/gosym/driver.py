"""Glue shared by the per-property checks: SSA regeneration from /repo's current
tree, harness intrinsics, violation candidates, native replay, evidence."""
import json
import os
import shutil
import subprocess
import sys
import tempfile
import time

from .terms import Term, sgn
from .mdd import TRUE
from .program import Program
from .executor import Executor, State, Unsupported, _Dead

VERIF = os.environ.get('VERIF_DIR', '/verif')
REPO = os.environ.get('VERIF_REPO', '/repo')
RJSON = 'github.com/willabides/rjson'
FP = RJSON + '/internal/fp'

GOENV = dict(os.environ, GOFLAGS='-mod=mod', GOPROXY='off', GOSUMDB='off', GOTOOLCHAIN='local')


_DROP_OPTIONAL = [False]


def harness_overlay(native=False):
    """virtual path under /repo -> real harness file under /verif/harness. Files with `_opt_` in
    their name reference internals that a legitimate refactoring may remove; they are left out
    when the tree does not compile with them (see build_program)."""
    ov = {}
    hdir = os.path.join(VERIF, 'harness')
    for f in sorted(os.listdir(hdir)):
        if not f.endswith('.go'):
            continue
        if _DROP_OPTIONAL[0] and '_opt_' in f:
            continue
        if f.startswith('fp_'):
            ov[os.path.join(REPO, 'internal', 'fp', 'zz_verif_' + f[3:])] = os.path.join(hdir, f)
        else:
            ov[os.path.join(REPO, f)] = os.path.join(hdir, f)
    return ov


DEPTH_SCALE_RE = r'rjson\.(skipValue|skipValueFast|vRefValueEnd|handleArrayValues|handleObjectValues)$|ValueReader\)\.Handle(Array|Object)Value$'


def build_program(workdir, scale_depth=None):
    """run ssaexport on /repo's current working tree + harness overlay.
    Returns the Program, or (Program, scaled Program) when scale_depth is given."""
    ovf = os.path.join(workdir, 'overlay.json')
    with open(ovf, 'w') as f:
        json.dump(harness_overlay(), f)
    out = os.path.join(workdir, 'ssa.json')
    exe = os.path.join(VERIF, 'bin', 'ssaexport')
    if not os.path.exists(exe):
        raise SystemExit('ssaexport not built: run setup_cmd')
    r = subprocess.run([exe, '-dir', REPO, '-tags', 'verif', '-overlay', ovf, '-o', out],
                       env=GOENV, capture_output=True, text=True)
    if r.returncode != 0 and not _DROP_OPTIONAL[0]:
        # retry without the optional harness files (they name internals the tree may have dropped)
        _DROP_OPTIONAL[0] = True
        with open(ovf, 'w') as f:
            json.dump(harness_overlay(), f)
        r = subprocess.run([exe, '-dir', REPO, '-tags', 'verif', '-overlay', ovf, '-o', out],
                           env=GOENV, capture_output=True, text=True)
        if r.returncode == 0:
            sys.stderr.write('note: optional harness files left out (tree does not compile with them)\n')
    if r.returncode != 0:
        sys.stderr.write(r.stderr)
        raise ToolError('ssaexport failed (does /repo compile?)')
    if scale_depth:
        return Program(out), Program(out, scale=(DEPTH_SCALE_RE, 10000, scale_depth))
    return Program(out)


def gc_escapes():
    """source lines at which the Go compiler's escape analysis places a value on the heap
    ('escapes to heap' / 'moved to heap'), for the packages of /repo's current tree"""
    r = subprocess.run(['go', 'build', '-gcflags=-m', './...'], cwd=REPO, env=GOENV, capture_output=True, text=True)
    if r.returncode != 0:
        raise ToolError('go build -gcflags=-m failed')
    out = set()
    import re as _re
    for line in (r.stderr + r.stdout).splitlines():
        m = _re.match(r'^(\./)?([^:]+\.go):(\d+):\d+: (.*)$', line)
        if not m:
            continue
        msg = m.group(4)
        if 'escapes to heap' in msg or 'moved to heap' in msg:
            out.add('%s:%s' % (os.path.join(REPO, m.group(2)), m.group(3)))
    return out


class ToolError(Exception):
    pass


class Candidate:
    """a feasible path on which a harness assertion fails / a runtime panic occurs"""

    def __init__(self, kind, what, pos, st):
        self.kind = kind      # 'assert' | 'panic' | 'event'
        self.what = what
        self.pos = pos
        self.st = st


class Session:
    """One executor over one freshly exported program."""

    def __init__(self, prog, seed=0, solver_timeout_ms=60000):
        self.prog = prog
        self.ex = Executor(prog, seed=seed, solver_timeout_ms=solver_timeout_ms)
        self.ex.initialise()
        self.install_hooks()
        self.reach = {}       # id -> number of path classes reaching it
        self.asserts = {}     # id -> [pass path classes, fail candidates]
        self.candidates = []
        self.nondet_vars = {}
        import random
        self.rng = random.Random(seed)
        self.reach_samples = {}   # id -> reservoir of (pc, extras, nondet)
        self.reservoir = 6

    # -- intrinsics -----------------------------------------------------
    def install_hooks(self):
        h = self.ex.hooks
        h[RJSON + '.vNondetInt'] = lambda ex, st, fr, ins, a: self._nondet(st, a, 64)
        h[RJSON + '.vNondetByte'] = lambda ex, st, fr, ins, a: self._nondet(st, a, 8)
        h[RJSON + '.vNondetBool'] = lambda ex, st, fr, ins, a: self._nondet(st, a, 0)
        h[RJSON + '.vAssume'] = self._assume
        h[RJSON + '.vAssert'] = self._assert
        h[RJSON + '.vReach'] = self._reach
        h[RJSON + '.vNumValue'] = self._numvalue
        h[RJSON + '.vFloatSame'] = self._floatsame
        h[RJSON + '.vCostBytes'] = lambda ex, st, fr, ins, a: st.heap[ex.cost_oid][1][0]
        h[RJSON + '.vCostReset'] = self._costreset
        h[RJSON + '.vAssertCost'] = self._assert_cost
        h[RJSON + '.vAllocWatch'] = self._allocwatch
        h[RJSON + '.vAllocs'] = lambda ex, st, fr, ins, a: sum(1 for k, s in st.flags if k == 'alloc')
        h[RJSON + '.vNondetUint64'] = lambda ex, st, fr, ins, a: self._nondet(st, a, 64)
        h[RJSON + '.vAssertRounded'] = self._assert_rounded
        h[RJSON + '.vNumOverflows'] = self._numovf
        for k in list(h):
            h[k.replace(RJSON, FP)] = h[k]

    def use_bits_intrinsics(self):
        """math/bits.Mul64 and LeadingZeros64 as term-level intrinsics (the Go bodies split into
        32-bit halves / use table lookups, which is needless work for the integer encoding)"""
        ex = self.ex

        def mul64(ex, st, fr, ins, args):
            x, y = args
            return ('U', (ex.store.mk('mulhi', 64, x, y), ex.store.mk('mul', 64, x, y)))

        def clz64(ex, st, fr, ins, args):
            x = args[0]
            if x.__class__ is not Term:
                return 64 - x.bit_length()
            _, lo, hi, _ = ex.solver.lia.conv(x)
            if lo > 0 and lo.bit_length() == hi.bit_length():
                return 64 - lo.bit_length()
            raise Unsupported('LeadingZeros64 of a value whose bit length is not fixed')
        ex.hooks['math/bits.Mul64'] = mul64
        ex.hooks['math/bits.LeadingZeros64'] = clz64
        ex.concretise_shifts = True
        ex.lazy_forks = True

    def _assert_rounded(self, ex, st, fr, ins, args):
        from .fpspec import check_rounded
        man, e10, neg, bits, idv = args
        aid = bytes(idv[1]).decode()
        rec = self.asserts.setdefault(aid, [0, 0])
        e10 = sgn(e10, 64)
        if bits.__class__ is tuple and bits[0] == 'FX':
            res = ex.fx.check_result(st, man, e10, neg, bits)
        else:
            res = check_rounded(self, st, man, e10, neg, bits)
        self.obligations = getattr(self, 'obligations', 0) + len(res)
        ok = True
        for verdict, info in res:
            if verdict == 'unsat':
                continue
            ok = False
            bad = st.fork()
            bad.status = 'assertfail'
            bad.result = (aid, ins['pos'])
            if verdict == 'sat':
                # pin the witness so that the generic candidate pipeline reproduces it
                for t in st.nondet:
                    val = ex.store.evaluate(t, info['assign'])
                    bad.extras = bad.extras + (ex.store.mk('eq', 0, t, val),)
            else:
                bad.inexact = True
            ex.finish(bad)
            rec[1] += 1
        if ok:
            rec[0] += 1
        return None

    def use_fx_model(self):
        from .fxmodel import FxModel
        self.ex.fx = FxModel(self)
        self.ex.lazy_forks = True

    def use_glue(self):
        from .glue import Glue
        self.use_fx_model()
        self.ex.lazy_forks = False
        Glue(self).install(FP)

    def use_slowpath(self):
        """tier 5: the decimal fallback runs for real; only the assertions come from glue.py"""
        from .glue import Glue
        g = Glue(self)
        g.exact_overflow = True
        g.install(FP)
        return g

    def use_absdec(self):
        """tier 5e: floatBits over an abstract decimal whose Shift / RoundedInteger follow their contracts"""
        from .absdec import AbsDec
        g = self.use_slowpath()
        AbsDec(self, g).install(FP)

    def use_float_contract(self):
        """replace fp.ParseJSONFloatPrefix by the harness contract vFloatStub"""
        from .executor import _TRANSFER

        def redirect(ex, st, fr, ins, args):
            ex.enter(st, fr, ('F', RJSON + '.vFloatStub', ()), args, ins)
            return _TRANSFER
        self.ex.hooks[FP + '.ParseJSONFloatPrefix'] = redirect

    def _allocwatch(self, ex, st, fr, ins, args):
        on = args[0]
        if on:
            st.flags = st.flags | {('watch', '')}
        else:
            st.flags = st.flags - {('watch', '')}
        return None

    def _floatsame(self, ex, st, fr, ins, args):
        """bit-identical floats. Uninterpreted literal values are equal iff they are the same literal;
        anything the encoding cannot relate is answered 'not the same' and marked inexact, so that it
        becomes a candidate which only the native replay can confirm"""
        a, b = args[0][1], args[1][1]
        if a.__class__ is tuple and b.__class__ is tuple and a[0] == 'NUM' and b[0] == 'NUM':
            return ex.bytes_eq(a[1], b[1])
        if a.__class__ is int and b.__class__ is int:
            return a == b
        if a.__class__ is Term and b.__class__ is Term or (a.__class__ in (int, Term) and b.__class__ in (int, Term)):
            return ex.store.mk('eq', 0, a, b)
        st.inexact = True
        return False

    def _costreset(self, ex, st, fr, ins, args):
        st.heap[ex.cost_oid] = ('A', (0, ('U', ())))
        return None

    def _assert_cost(self, ex, st, fr, ins, args):
        """vAssert whose failure description names the allocation sites whose amount depends on a
        size hint that is *responsible* for the failure (bounding that hint by 64 makes the violation
        impossible), so that a known finding is identified by site and hint and a different
        super-linear site is still reported"""
        c = args[0]
        aid = bytes(args[1][1]).decode()
        label = aid
        if c is not True:
            syms = st.heap[ex.cost_oid][1][1][1]
            bad = ex.store.bnot(c) if c.__class__ is Term else True
            resp = set()
            if c.__class__ is Term:
                for i, v in enumerate(ex.store.vars):
                    if (c.vars >> i) & 1 and v.kind == 'free' and v.w == 64:
                        vt = ex.store._mk('var', v.w, (v.idx,), v.bit)
                        r = ex.solver.check(st.pc, st.extras, (bad, ex.store.mk('ule', 0, vt, 64)), st.raw)
                        if r == 'unsat':
                            resp.add(i)
            sites = []
            for ent in syms:
                site, amount = ent[1]
                names = sorted(set(ex.store.vars[i].name.split('#')[0] for i in resp if (amount.vars >> i) & 1))
                if names:
                    sites.append('%s<-%s' % (bytes(site[1]).decode(), '+'.join(names)))
            label = aid + ' hint-proportional=' + (','.join(sorted(set(sites))) or 'none')
        return self._assert(ex, st, fr, ins, [c, ('Z', tuple(label.encode()))])

    def no_float_overflow(self):
        self.ex.hooks[RJSON + '.vNumOverflows'] = lambda ex, st, fr, ins, a: False

    def _numvalue(self, ex, st, fr, ins, args):
        cells = ex.slice_cells(st, args[0])
        return ('D', ('NUM', tuple(cells)))

    def _numovf(self, ex, st, fr, ins, args):
        cells = tuple(ex.slice_cells(st, args[0]))
        t = self.nondet_vars.get(('ovf', cells))
        if t is None:
            t = ex.store.newvar('ovf%d' % len(self.nondet_vars), 0, 'free')
            self.nondet_vars[('ovf', cells)] = t
        return t

    def _nondet(self, st, args, w):
        name = bytes(args[0][1]).decode() if args else 'nd'
        k = len(st.nondet)
        key = (name, k, w)
        t = self.nondet_vars.get(key)
        if t is None:
            t = self.ex.store.newvar('%s#%d' % (name, k), w, 'free')
            self.nondet_vars[key] = t
        st.nondet = st.nondet + (t,)
        return t

    def _assume(self, ex, st, fr, ins, args):
        c = args[0]
        if c is True:
            return None
        if c is False:
            ex.kill(st)
            raise _Dead()
        pt, et, pf, ef = ex.split(st, c)
        if pt is None:
            ex.kill(st)
            raise _Dead()
        st.pc, st.extras = pt, et
        return None

    def _assert(self, ex, st, fr, ins, args):
        c = args[0]
        aid = bytes(args[1][1]).decode()
        rec = self.asserts.setdefault(aid, [0, 0])
        if c is True:
            rec[0] += 1
            return None
        if c is False:
            pf, ef, pt, et = st.pc, st.extras, None, None
        else:
            pt, et, pf, ef = ex.split(st, c)
        if pf is not None:
            bad = st.fork()
            bad.pc, bad.extras = pf, ef
            bad.status = 'assertfail'
            bad.result = (aid, ins['pos'])
            ex.finish(bad)
            rec[1] += 1
        if pt is None:
            ex.kill(st)
            raise _Dead()
        rec[0] += 1
        st.pc, st.extras = pt, et
        return None

    def _reach(self, ex, st, fr, ins, args):
        rid = bytes(args[0][1]).decode()
        k = self.reach[rid] = self.reach.get(rid, 0) + 1
        res = self.reach_samples.setdefault(rid, [])
        item = (st.pc, st.extras, st.nondet)
        if len(res) < self.reservoir:
            res.append(item)
        else:
            j = self.rng.randrange(k)
            if j < self.reservoir:
                res[j] = item
        return None

    # -- running --------------------------------------------------------
    def run(self, fname, make_args, deadline=None):
        """make_args(ex, st) -> list of argument values. Returns terminal states."""
        ex = self.ex
        st = ex.fresh_state()
        args = make_args(ex, st)
        ex.freeze()
        self.initial_pc = st.pc
        ex.start(st, fname, args)
        ex.deadline = deadline
        return ex.run(st)

    def model_for(self, st):
        """decide feasibility of a terminal state with the solver and extract a model.
        returns (verdict, assignment var idx -> int)"""
        return self.model_pc(st.pc, st.extras, raw=st.raw)

    def model_pc(self, pc, extras, quick=False, raw=()):
        if quick and any(e.hard for e in extras):
            # sample extraction must not cost more than the proof obligations: short timeout
            sv = self.ex.solver.lia.s
            sv.set('timeout', 1500)
            try:
                r = self.ex.solver.check(pc, extras, (), raw, nocache=True)
            finally:
                sv.set('timeout', self.ex.solver.timeout_ms)
            if r != 'sat':
                return r, None
            return r, self.ex.solver.model_assign()
        r = self.ex.solver.check(pc, extras, (), raw, nocache=True)
        if r != 'sat':
            return r, None
        return r, self.ex.solver.model_assign()


def concrete_input(ex, assign, cells):
    out = []
    for c in cells:
        if c.__class__ is Term:
            out.append(ex.store.evaluate(c, assign))
        else:
            out.append(c)
    return bytes(out)


# ----------------------------------------------------------------------
# native replay
REPLAY_TMPL = '''//go:build verif && verifnative

package %(pkg)s

import (
	"fmt"
	"testing"
)

func TestVerifReplay(t *testing.T) {
	type rc struct {
		name   string
		script []int64
		run    func()
	}
	cases := []rc{
%(cases)s
	}
	for _, c := range cases {
		vReset(c.script)
		func() {
			defer func() {
				if r := recover(); r != nil {
					if _, ok := r.(vAssumeFailed); ok {
						fmt.Printf("VERIF-REPLAY %%s ASSUME-FAILED\\n", c.name)
						return
					}
					fmt.Printf("VERIF-REPLAY %%s PANIC %%v\\n", c.name, r)
				}
			}()
			c.run()
			if len(vFailures) > 0 {
				fmt.Printf("VERIF-REPLAY %%s FAIL %%q\\n", c.name, vFailures)
			} else {
				fmt.Printf("VERIF-REPLAY %%s PASS\\n", c.name)
			}
		}()
	}
}
'''


def go_bytes(b):
    return '[]byte{' + ','.join(str(x) for x in b) + '}'


def scaled_sources(work, depth):
    """overlay copies of the three files that define the depth limits, with the limit replaced"""
    import re as _re
    out = {}
    for virt, real, pat in ((os.path.join(REPO, 'machine_helpers.go'), os.path.join(REPO, 'machine_helpers.go'), r'(const skipMaxDepth = )10_000'),
                            (os.path.join(REPO, 'complex_readers.go'), os.path.join(REPO, 'complex_readers.go'), r'(const valueReaderMaxDepth = )10_000'),
                            (os.path.join(REPO, 'zz_verif_ref.go'), os.path.join(VERIF, 'harness', 'zz_verif_ref.go'), r'(const vRefMaxDepth = )10000')):
        src = open(real).read()
        new, n = _re.subn(pat, r'\g<1>%d' % depth, src)
        if n != 1:
            raise ToolError('cannot scale depth constant in %s' % real)
        dst = os.path.join(work, 'scaled_' + os.path.basename(virt))
        with open(dst, 'w') as f:
            f.write(new)
        out[virt] = dst
    return out


def native_replay(cases, pkgdir='.', timeout=600, extra_files=None, scale_depth=None, race=False):
    """cases: list of (name, script ints, go call expression). Runs them against the
    real build of /repo's current tree. Returns {name: ('PASS'|'FAIL'|'PANIC'|'ASSUME-FAILED', detail)}"""
    work = tempfile.mkdtemp(prefix='verif-replay-')
    try:
        lines = []
        for name, script, call in cases:
            lines.append('\t\t{%s, []int64{%s}, func() { %s }},' % (json.dumps(name), ','.join(str(int(x)) for x in script), call))
        pkg = 'rjson' if pkgdir == '.' else 'fp'
        src = REPLAY_TMPL % {'pkg': pkg, 'cases': '\n'.join(lines)}
        tf = os.path.join(work, 'replay_test.go')
        with open(tf, 'w') as f:
            f.write(src)
        ov = harness_overlay()
        ov[os.path.join(REPO, pkgdir, 'zz_verif_replay_test.go')] = tf
        for virt, real in (extra_files or {}).items():
            ov[virt] = real
        if scale_depth:
            ov.update(scaled_sources(work, scale_depth))
        ovf = os.path.join(work, 'overlay.json')
        with open(ovf, 'w') as f:
            json.dump({'Replace': ov}, f)
        cmd = ['go', 'test', '-tags', 'verif verifnative', '-overlay', ovf, '-vet=off', '-count=1', '-v',
               '-run', '^TestVerifReplay$', './' + pkgdir if pkgdir != '.' else '.']
        if race:
            cmd.insert(2, '-race')
        r = subprocess.run(cmd, cwd=REPO, env=GOENV, capture_output=True, text=True, timeout=timeout)
        res = {}
        if race and 'WARNING: DATA RACE' in (r.stdout + r.stderr):
            res['__race__'] = ('RACE', (r.stdout + r.stderr).split('WARNING: DATA RACE', 1)[1][:600])
        for line in r.stdout.splitlines():
            if line.startswith('VERIF-REPLAY '):
                parts = line.split(' ', 3)
                res[parts[1]] = (parts[2], parts[3] if len(parts) > 3 else '')
        if not res and r.returncode != 0:
            raise ToolError('native replay failed to run:\n' + r.stdout[-2000:] + r.stderr[-2000:])
        return res
    finally:
        shutil.rmtree(work, ignore_errors=True)


def run_refvalidate(full=False, timeout=600):
    """validate the Go reference models against encoding/json, strconv, unicode/utf8 (native)"""
    work = tempfile.mkdtemp(prefix='verif-refval-')
    try:
        ovf = os.path.join(work, 'overlay.json')
        with open(ovf, 'w') as f:
            json.dump({'Replace': harness_overlay()}, f)
        r = subprocess.run(['go', 'test', '-tags', 'verif verifnative', '-overlay', ovf, '-vet=off', '-count=1', '-v', '-run', '^TestVerifRefValidate$', '.'],
                           cwd=REPO, env=dict(GOENV, VERIF_REF_FULL='1' if full else '0'), capture_output=True, text=True, timeout=timeout)
        for line in r.stdout.splitlines():
            if line.startswith('VERIF-REFVALIDATE'):
                return {'ok': r.returncode == 0, 'summary': line[len('VERIF-REFVALIDATE '):]}
        return {'ok': False, 'summary': (r.stdout + r.stderr)[-600:]}
    except Exception as e:
        return {'ok': False, 'summary': 'could not run: %s' % e}
    finally:
        shutil.rmtree(work, ignore_errors=True)


# ----------------------------------------------------------------------
# known findings
def load_known_findings():
    path = os.path.join(VERIF, 'known_findings.txt')
    known, fixed = [], []
    if os.path.exists(path):
        for line in open(path):
            line = line.strip()
            if not line or line.startswith('#'):
                continue
            if line.startswith('known:'):
                known.append(line[len('known:'):].strip())
            elif line.startswith('fixed:'):
                fixed.append(line[len('fixed:'):].strip())
    return known, fixed


def write_evidence(pid, tier, seed, level, coverage, assumptions, wall_s, violations):
    ev = {
        'property_id': pid, 'tier': tier, 'seed': seed, 'level': level,
        'coverage': coverage, 'assumptions': assumptions, 'wall_s': round(wall_s, 3),
        'violations': violations,
    }
    # runs against a scratch copy of the repository (VERIF_REPO, used for seeded changes) must not overwrite the
    # evidence of the real tree
    evdir = 'evidence' if REPO == '/repo' else 'evidence-scratch'
    os.makedirs(os.path.join(VERIF, evdir), exist_ok=True)
    with open(os.path.join(VERIF, evdir, pid + '.json'), 'w') as f:
        json.dump(ev, f, indent=1, default=str)
    return ev
