//go:build verif

package rjson

import "io"

// Harness entry points. Each takes the symbolic input `data` prepared by the
// driver; further nondeterministic choices come from the vNondet* intrinsics.
// The property is stated as vAssert calls; vReach marks are reachability
// witnesses (a harness whose marks are never reached is reported as vacuous).

// vMakeBuffer builds the scratch Buffer configuration selected by mode:
// 0 nil, 1 fresh zero Buffer, 2.. a "previously used" Buffer, i.e. one whose
// stack slice has arbitrary length (mode-2) and arbitrary contents.
func vMakeBuffer(mode int) *Buffer {
	if mode == 0 {
		return nil
	}
	if mode == 1 {
		return &Buffer{}
	}
	n := mode - 2
	b := &Buffer{stackBuf: make([]int, n)}
	for i := 0; i < n; i++ {
		b.stackBuf[i] = vNondetInt("stack")
	}
	return b
}

func vMakeBufferLen(n int) *Buffer { return &Buffer{stackBuf: make([]int, n)} }
func vBufferCap(b *Buffer) int      { return cap(b.stackBuf) }

// ---- C01 ---------------------------------------------------------------
func vH_C01(data []byte, bufmode int) {
	got := Valid(data, vMakeBuffer(bufmode))
	want := vRefValid(data)
	vReach("C01.compared")
	vAssert(got == want, "C01.verdict")
}

// ---- C02 ---------------------------------------------------------------
func vH_C02(data []byte, bufmode int) {
	p, err := SkipValue(data, vMakeBuffer(bufmode))
	end, ok := vRefSkip(data)
	vReach("C02.compared")
	vAssert((err == nil) == ok, "C02.success")
	if ok && err == nil {
		vAssert(p == end, "C02.offset")
	}
}

// ---- C11 ---------------------------------------------------------------
func vH_C11(data []byte, bufmode int) {
	p, err := SkipValue(data, nil)
	if err != nil {
		return
	}
	vReach("C11.wellformed")
	pf, errf := SkipValueFast(data, vMakeBuffer(bufmode))
	vAssert(errf == nil, "C11.fast-accepts")
	if errf == nil {
		vAssert(pf == p, "C11.same-offset")
	}
}

// ---- C13 ---------------------------------------------------------------
func vH_C13_token(data []byte) {
	ws := vSkipWS(data, 0)
	tt, p, err := NextTokenType(data)
	tok, p2, err2 := NextToken(data)
	if ws == len(data) {
		vReach("C13.eof")
		vAssert(err == io.EOF, "C13.type-eof")
		vAssert(err2 == io.EOF, "C13.token-eof")
		return
	}
	vReach("C13.token")
	want := vRefTokenType(data[ws])
	vAssert(err == nil, "C13.type-noerr")
	vAssert(tt == want, "C13.type-class")
	vAssert(p == ws+1, "C13.type-index")
	vAssert(p2 == ws+1, "C13.token-index")
	vAssert(tok == data[ws], "C13.token-byte")
	vAssert((err2 == nil) == (want != InvalidType), "C13.token-err")
	vAssert(err2 != io.EOF, "C13.token-not-eof")
}

func vH_C13_literals(data []byte) {
	ws := vSkipWS(data, 0)
	isNull := vRefLiteral(data, ws, "null")
	isTrue := vRefLiteral(data, ws, "true")
	isFalse := vRefLiteral(data, ws, "false")
	p, err := ReadNull(data)
	vReach("C13.readnull")
	vAssert((err == nil) == isNull, "C13.null-success")
	if isNull && err == nil {
		vAssert(p == ws+4, "C13.null-offset")
	}
	v, pb, errb := ReadBool(data)
	vAssert((errb == nil) == (isTrue || isFalse), "C13.bool-success")
	if errb == nil && isTrue {
		vAssert(v && pb == ws+4, "C13.true")
	}
	if errb == nil && isFalse {
		vAssert(!v && pb == ws+5, "C13.false")
	}
}

// ---- handler used by C07 / C09 / C10 / C14 -------------------------------
const vMaxCalls = 8

type vErr struct{}

func (*vErr) Error() string { return "verif stop" }

var vErrStop error = &vErr{}

type vHandler struct {
	whole    []byte
	n        int          // calls made
	mode     int          // 0 well-behaved (0 or exact end), 1 fail at call failAt, 2 hostile (free offset), 3 re-entrant
	failAt   int
	expect   bool         // reference member list is valid (container well-formed)
	nexp     int
	vs, ve   [vMaxCalls]int // reference value start / end per member
	ks, ke   [vMaxCalls]int // reference key content start / end per member (objects)
	bad      bool         // a call did not match the reference member
	overflow bool
	oob      bool         // hostile mode: an offset outside [0, len(data)] was returned
	after    bool         // a call was made after the failing call
	buf      *Buffer      // re-entrant mode: the enclosing call's buffer
	fn       int
	errKind  int          // mode 1: which error value the handler fails with
}

// the error a failing handler returns: its own, or one of the library's own sentinels (a handler
// that delegates to the library hands those back)
func vHandlerErr(kind int) error {
	switch kind {
	case 1:
		return errInvalidArray
	case 2:
		return errInvalidObject
	case 3:
		return errUnexpectedEOF
	case 4:
		return errPOutOfRange
	}
	return vErrStop
}

func (h *vHandler) HandleArrayValue(data []byte) (int, error) { return h.handle(nil, false, data) }
func (h *vHandler) HandleObjectValue(key, data []byte) (int, error) {
	return h.handle(key, true, data)
}

func (h *vHandler) handle(key []byte, isObj bool, data []byte) (int, error) {
	k := h.n
	h.n++
	if k >= vMaxCalls {
		h.overflow = true
		return 0, nil
	}
	if h.expect {
		if k >= h.nexp {
			h.bad = true
		} else {
			if len(h.whole)-len(data) != h.vs[k] {
				h.bad = true
			}
			if isObj {
				if len(key) != h.ke[k]-h.ks[k] {
					h.bad = true
				} else {
					for i := 0; i < len(key); i++ {
						if key[i] != h.whole[h.ks[k]+i] {
							h.bad = true
						}
					}
				}
			}
		}
	}
	switch h.mode {
	case 1:
		if k > h.failAt {
			h.after = true
		}
		if k == h.failAt {
			return vNondetInt("pp"), vHandlerErr(h.errKind)
		}
	case 2:
		pp := vNondetInt("pp")
		if pp < 0 || pp > len(data) {
			h.oob = true
		}
		return pp, nil
	case 3:
		// re-enter the library on this member with the enclosing call's Buffer
		var p int
		var err error
		switch h.fn {
		case 0:
			p, err = SkipValue(data, h.buf)
		case 1:
			p, err = SkipValueFast(data, h.buf)
		case 2:
			if Valid(data, h.buf) {
				p = len(data)
			}
		case 3:
			var inner vHandler
			p, err = HandleArrayValues(data, &inner, h.buf)
		default:
			var inner vHandler
			p, err = HandleObjectValues(data, &inner, h.buf)
		}
		if err != nil {
			return 0, nil
		}
		return p, nil
	}
	if h.mode == 4 {
		return 0, nil
	}
	end, ok := vRefValueEnd(data, 0, 0)
	if ok && vNondetBool("exact") {
		return end, nil
	}
	return 0, nil
}

// vRefMembers fills the reference member list of the well-formed container at ws.
func vRefMembers(data []byte, ws int, h *vHandler) {
	obj := data[ws] == '{'
	p := vSkipWS(data, ws+1)
	k := 0
	if data[p] == ']' || data[p] == '}' {
		h.nexp = 0
		return
	}
	for {
		if obj {
			e, _ := vRefStringEnd(data, p)
			if k < vMaxCalls {
				h.ks[k] = p + 1
				h.ke[k] = e - 1
			}
			p = vSkipWS(data, e)
			p = vSkipWS(data, p+1) // ':'
		}
		e, _ := vRefValueEnd(data, p, 1)
		if k < vMaxCalls {
			h.vs[k] = p
			h.ve[k] = e
		}
		k++
		p = vSkipWS(data, e)
		if data[p] != ',' {
			break
		}
		p = vSkipWS(data, p+1)
	}
	h.nexp = k
}

func vHandleValues(obj bool, data []byte, h *vHandler, buf *Buffer) (int, error) {
	if obj {
		return HandleObjectValues(data, h, buf)
	}
	return HandleArrayValues(data, h, buf)
}

// ---- C07 ---------------------------------------------------------------
func vH_C07(data []byte, obj bool) {
	open := byte('[')
	if obj {
		open = '{'
	}
	ws := vSkipWS(data, 0)
	end, ok := vRefSkip(data)
	if _, okDeep := vRefSkipDeep(data); okDeep && !ok {
		// well-formed but nested beyond the limit: outside this property (the handler machines
		// have no nesting limit of their own; C10 covers totality there)
		return
	}
	isCont := ok && data[ws] == open
	isNull := ok && data[ws] == 'n'
	h := &vHandler{whole: data}
	if isCont {
		vRefMembers(data, ws, h)
		h.expect = true
	}
	p, err := vHandleValues(obj, data, h, nil)
	vAssume(!h.overflow)
	vReach("C07.returned")
	vAssert((err == nil) == (isCont || isNull), "C07.success")
	if err == nil && (isCont || isNull) {
		vReach("C07.success")
		vAssert(p == end, "C07.offset")
		vAssert(!h.bad, "C07.member-args")
		vAssert(h.n == h.nexp, "C07.call-count")
	}
}

// ---- C09 ---------------------------------------------------------------
func vH_C09(data []byte, obj bool, failAt int, errKind int) {
	h := &vHandler{whole: data, mode: 1, failAt: failAt, errKind: errKind}
	_, err := vHandleValues(obj, data, h, nil)
	if h.n > failAt {
		vReach("C09.failed-call-made")
		vAssert(err == vHandlerErr(errKind), "C09.same-error")
		vAssert(h.n == failAt+1, "C09.no-further-calls")
		vAssert(!h.after, "C09.no-call-after")
	}
}

// ---- C10 (handlers) ----------------------------------------------------
func vH_C10_handler(data []byte, obj bool, bufmode int) {
	h := &vHandler{whole: data, mode: 2}
	p, err := vHandleValues(obj, data, h, vMakeBuffer(bufmode))
	vAssume(!h.overflow)
	vReach("C10.handler-returned")
	if err == nil {
		vAssert(p >= 0 && p <= len(data), "C10.offset-in-range")
		vAssert(!h.oob, "C10.oob-offset-is-error")
	}
}

// ---- C10 (all entry points on arbitrary bytes) --------------------------
func vInRange(p int, err error, data []byte, id string) {
	if err == nil {
		vAssert(p >= 0 && p <= len(data), id)
	}
}

func vH_C10_scalars(data []byte, bufmode int) {
	buf := vMakeBuffer(bufmode)
	p, err := SkipValue(data, buf)
	vInRange(p, err, data, "C10.SkipValue")
	p, err = SkipValueFast(data, buf)
	vInRange(p, err, data, "C10.SkipValueFast")
	Valid(data, buf)
	_, p, err = NextToken(data)
	vInRange(p, err, data, "C10.NextToken")
	_, p, err = NextTokenType(data)
	vInRange(p, err, data, "C10.NextTokenType")
	p, err = ReadNull(data)
	vInRange(p, err, data, "C10.ReadNull")
	_, p, err = ReadBool(data)
	vInRange(p, err, data, "C10.ReadBool")
	_, p, err = ReadInt64(data)
	vInRange(p, err, data, "C10.ReadInt64")
	_, p, err = ReadUint64(data)
	vInRange(p, err, data, "C10.ReadUint64")
	_, p, err = ReadInt32(data)
	vInRange(p, err, data, "C10.ReadInt32")
	_, p, err = ReadUint32(data)
	vInRange(p, err, data, "C10.ReadUint32")
	_, p, err = ReadInt(data)
	vInRange(p, err, data, "C10.ReadInt")
	_, p, err = ReadUint(data)
	vInRange(p, err, data, "C10.ReadUint")
	vReach("C10.scalars-done")
}

func vH_C10_strings(data []byte, spare int) {
	dst := make([]byte, 0, spare)
	_, p, err := ReadStringBytes(data, dst)
	vInRange(p, err, data, "C10.ReadStringBytes")
	_, p, err = ReadString(data, nil)
	vInRange(p, err, data, "C10.ReadString")
	var s string
	p, err = DecodeString(data, &s, &dst)
	vInRange(p, err, data, "C10.DecodeString")
	_, p, err = UnescapeStringContent(data, nil)
	vInRange(p, err, data, "C10.UnescapeStringContent")
	StdLibCompatibleStringBytes(data, nil)
	vReach("C10.strings-done")
}

// ---- C14 ---------------------------------------------------------------
func vCallBuf(fn int, data []byte, h *vHandler, buf *Buffer) (int, error) {
	switch fn {
	case 0:
		return SkipValue(data, buf)
	case 1:
		return SkipValueFast(data, buf)
	case 2:
		if Valid(data, buf) {
			return 1, nil
		}
		return 0, nil
	case 3:
		return HandleArrayValues(data, h, buf)
	}
	return HandleObjectValues(data, h, buf)
}

// one call with an arbitrary (previously used) Buffer vs. the same call with nil
func vH_C14(data []byte, fn int, bufmode int) {
	h1 := &vHandler{whole: data}
	h2 := &vHandler{whole: data}
	p1, err1 := vCallBuf(fn, data, h1, nil)
	// the same handler strategy for both runs: replay the nondeterministic choices
	p2, err2 := vCallBuf(fn, data, h2, vMakeBuffer(bufmode))
	vReach("C14.compared")
	if fn >= 3 {
		// handler strategies are chosen independently in the two runs; compare only
		// what does not depend on them
		vAssert((err1 == nil) == (err2 == nil), "C14.same-success")
		if err1 == nil && err2 == nil {
			vAssert(p1 == p2, "C14.same-offset")
			vAssert(h1.n == h2.n, "C14.same-calls")
		}
		return
	}
	vAssert(err1 == err2, "C14.same-error")
	vAssert(p1 == p2, "C14.same-offset")
}

// a real two-call history on one Buffer: whatever call A leaves behind in it - in whichever field -
// call B must behave as with no buffer. With alias the caller refills its read buffer in place, so
// the second input lives in the array the first call saw.
func vH_C14_history(d1 []byte, d2 []byte, fnA int, fnB int, alias bool) {
	buf := &Buffer{}
	hA := &vHandler{whole: d1}
	vCallBuf(fnA, d1, hA, buf)
	in := d2
	if alias {
		n := copy(d1, d2)
		in = d1[:n]
	}
	h1 := &vHandler{whole: in}
	h2 := &vHandler{whole: in}
	p1, err1 := vCallBuf(fnB, in, h1, nil)
	p2, err2 := vCallBuf(fnB, in, h2, buf)
	vReach("C14.history-compared")
	if fnB >= 3 {
		vAssert((err1 == nil) == (err2 == nil), "C14.hist.same-success")
		if err1 == nil && err2 == nil {
			vAssert(p1 == p2, "C14.hist.same-offset")
			vAssert(h1.n == h2.n, "C14.hist.same-calls")
		}
		return
	}
	vAssert(err1 == err2, "C14.hist.same-error")
	vAssert(p1 == p2, "C14.hist.same-offset")
}

// re-entrant sharing: the handler re-enters function `inner` with the very Buffer
// of the enclosing call `outer`; compared with the all-nil run.
func vH_C14_reentrant(data []byte, outer int, inner int, bufmode int) {
	buf := vMakeBuffer(bufmode)
	h1 := &vHandler{whole: data, mode: 3, fn: inner}
	h2 := &vHandler{whole: data, mode: 3, fn: inner, buf: buf}
	p1, err1 := vCallBuf(3+outer, data, h1, nil)
	p2, err2 := vCallBuf(3+outer, data, h2, buf)
	vReach("C14.reentrant-compared")
	vAssert(err1 == err2, "C14.re.same-error")
	vAssert(p1 == p2, "C14.re.same-offset")
	vAssert(h1.n == h2.n, "C14.re.same-calls")
}

// ---- C05 ---------------------------------------------------------------
// kind: 0 uint64, 1 int64, 2 int32, 3 uint32, 4 int, 5 uint
func vIntBounds(kind int) (allowNeg bool, maxPos, maxNeg string) {
	switch kind {
	case 0, 5:
		return false, "18446744073709551615", ""
	case 1, 4:
		return true, "9223372036854775807", "9223372036854775808"
	case 2:
		return true, "2147483647", "2147483648"
	}
	return false, "4294967295", ""
}

// vReadIntKind calls the reader of the given kind; the value is returned as
// (magnitude-preserving) int64 / uint64 bit pattern in a uint64.
func vReadIntKind(kind int, data []byte) (uint64, int, error) {
	switch kind {
	case 0:
		v, p, err := ReadUint64(data)
		return v, p, err
	case 1:
		v, p, err := ReadInt64(data)
		return uint64(v), p, err
	case 2:
		v, p, err := ReadInt32(data)
		return uint64(int64(v)), p, err
	case 3:
		v, p, err := ReadUint32(data)
		return uint64(v), p, err
	case 4:
		v, p, err := ReadInt(data)
		return uint64(v), p, err
	}
	v, p, err := ReadUint(data)
	return uint64(v), p, err
}

func vRefIntFits(kind int, data []byte) (fits bool, neg bool, ds, de int) {
	allowNeg, maxPos, maxNeg := vIntBounds(kind)
	neg, ds, de, ok := vRefIntLiteral(data, true)
	if !ok {
		return false, false, 0, 0
	}
	if neg && !allowNeg {
		return false, false, 0, 0
	}
	if neg {
		return vRefDigitsLE(data, ds, de, maxNeg), true, ds, de
	}
	return vRefDigitsLE(data, ds, de, maxPos), false, ds, de
}

func vH_C05(data []byte, kind int) {
	val, p, err := vReadIntKind(kind, data)
	fits, neg, ds, de := vRefIntFits(kind, data)
	vReach("C05.compared")
	vAssert((err == nil) == fits, "C05.success")
	if fits && err == nil {
		vReach("C05.value")
		vAssert(p == de, "C05.offset")
		mag := vRefDigitsValue(data, ds, de)
		if neg {
			vAssert(val == -mag, "C05.neg-value")
		} else {
			vAssert(val == mag, "C05.value")
		}
	}
}

// ---- C12 ---------------------------------------------------------------
// kind as in C05; 6 bool; 7 float64 is handled by vH_C12_float; 8 string by vH_C12_string
func vDecodeIntKind(kind int, data []byte, v0 uint64) (uint64, int, error) {
	switch kind {
	case 0:
		v := v0
		p, err := DecodeUint64(data, &v)
		return v, p, err
	case 1:
		v := int64(v0)
		p, err := DecodeInt64(data, &v)
		return uint64(v), p, err
	case 2:
		v := int32(v0)
		p, err := DecodeInt32(data, &v)
		return uint64(int64(v)), p, err
	case 3:
		v := uint32(v0)
		p, err := DecodeUint32(data, &v)
		return uint64(v), p, err
	case 4:
		v := int(v0)
		p, err := DecodeInt(data, &v)
		return uint64(v), p, err
	}
	v := uint(v0)
	p, err := DecodeUint(data, &v)
	return uint64(v), p, err
}

func vNormKind(kind int, v0 uint64) uint64 {
	switch kind {
	case 2:
		return uint64(int64(int32(v0)))
	case 3:
		return uint64(uint32(v0))
	}
	return v0
}

func vH_C12_int(data []byte, kind int) {
	v0 := uint64(vNondetInt("v0"))
	got, p, err := vDecodeIntKind(kind, data, v0)
	rv, rp, rerr := vReadIntKind(kind, data)
	ws := vSkipWS(data, 0)
	isNull := vRefLiteral(data, ws, "null")
	vReach("C12.int-compared")
	if rerr == nil {
		vAssert(err == nil && p == rp, "C12.int-as-reader")
		vAssert(got == rv, "C12.int-stored")
	} else if isNull {
		vReach("C12.int-null")
		vAssert(err == nil && p == ws+4, "C12.int-null-offset")
		vAssert(got == vNormKind(kind, v0), "C12.int-null-untouched")
	} else {
		vAssert(err != nil, "C12.int-error")
		vAssert(got == vNormKind(kind, v0), "C12.int-error-untouched")
	}
}

func vH_C12_bool(data []byte) {
	v0 := vNondetBool("v0")
	v := v0
	p, err := DecodeBool(data, &v)
	rv, rp, rerr := ReadBool(data)
	ws := vSkipWS(data, 0)
	isNull := vRefLiteral(data, ws, "null")
	vReach("C12.bool-compared")
	if rerr == nil {
		vAssert(err == nil && p == rp && v == rv, "C12.bool-as-reader")
	} else if isNull {
		vAssert(err == nil && p == ws+4 && v == v0, "C12.bool-null")
	} else {
		vAssert(err != nil && v == v0, "C12.bool-error")
	}
}

func vH_C12_string(data []byte, withBuf bool, second []byte) {
	// prior target content: a string of nondeterministic length 0..2 and content
	var v0b [2]byte
	v0b[0] = vNondetByte("v0a")
	v0b[1] = vNondetByte("v0b")
	l := 2
	if vNondetBool("short") {
		l = 0
	}
	v0 := string(v0b[:l])
	v := v0
	var bufp *[]byte
	if withBuf {
		b := make([]byte, 1, 3)
		b[0] = vNondetByte("dirty")
		bufp = &b
	}
	p, err := DecodeString(data, &v, bufp)
	want, rend, rok := vRefReadString(data, nil)
	ws := vSkipWS(data, 0)
	isNull := vRefLiteral(data, ws, "null")
	vReach("C12.string-compared")
	if rok {
		vAssert(err == nil && p == rend, "C12.string-as-reader")
		vAssert(v == string(want), "C12.string-stored")
	} else if isNull {
		vAssert(err == nil && p == ws+4, "C12.string-null-offset")
		vAssert(v == v0, "C12.string-null-untouched")
	} else {
		vAssert(err != nil, "C12.string-error")
		vAssert(v == v0, "C12.string-error-untouched")
	}
	if len(second) > 0 {
		// a later call with the same target and the same scratch buffer: when it fails (or reads
		// null) the target must still hold what the first call left in it
		// a real copy (the compiler may alias a non-escaping, read-only []byte(v) with v itself)
		snap := make([]byte, len(v))
		copy(snap, v)
		_, rend2, rok2 := vRefReadString(second, nil)
		_ = rend2
		_, err2 := DecodeString(second, &v, bufp)
		if !rok2 {
			vReach("C12.string-second-call-no-store")
			ws2 := vSkipWS(second, 0)
			if !vRefLiteral(second, ws2, "null") {
				vAssert(err2 != nil, "C12.string-second-error")
			}
			vAssert(v == string(snap), "C12.string-second-untouched")
		}
	}
}

// ---- C06 ---------------------------------------------------------------
func vBytesEq(a, b []byte) bool {
	if len(a) != len(b) {
		return false
	}
	for i := 0; i < len(a); i++ {
		if a[i] != b[i] {
			return false
		}
	}
	return true
}

// dst: prefix of length pre (arbitrary content) and spare capacity spare.
func vMakeDst(pre, spare int) []byte {
	dst := make([]byte, pre, pre+spare)
	for i := 0; i < pre; i++ {
		dst[i] = vNondetByte("pre")
	}
	return dst
}

func vH_C06_bytes(data []byte, pre, spare int) {
	dst := vMakeDst(pre, spare)
	var keep [4]byte
	for i := 0; i < pre && i < 4; i++ {
		keep[i] = dst[i]
	}
	out, p, err := ReadStringBytes(data, dst)
	want, rend, rok := vRefReadString(data, nil)
	vReach("C06.bytes-compared")
	vAssert((err == nil) == rok, "C06.bytes-success")
	if rok && err == nil {
		vReach("C06.bytes-ok")
		vAssert(p == rend, "C06.bytes-offset")
		vAssert(len(out) == pre+len(want), "C06.bytes-length")
		if len(out) == pre+len(want) {
			vAssert(vBytesEq(out[:pre], keep[:pre]), "C06.bytes-prefix-kept")
			vAssert(vBytesEq(out[pre:], want), "C06.bytes-content")
		}
	}
}

func vH_C06_string(data []byte, withBuf bool) {
	var bufp *[]byte
	if withBuf {
		b := make([]byte, 2, 5)
		b[0] = vNondetByte("dirty")
		b[1] = vNondetByte("dirty")
		bufp = &b
	}
	s, p, err := ReadString(data, bufp)
	want, rend, rok := vRefReadString(data, nil)
	vReach("C06.string-compared")
	vAssert((err == nil) == rok, "C06.string-success")
	if rok && err == nil {
		vAssert(p == rend, "C06.string-offset")
		vAssert(s == string(want), "C06.string-content")
	}
}

// the bytes between the quotes of a well-formed token, unescaped on their own
func vH_C06_unescape(data []byte, pre, spare int) {
	want, rend, rok := vRefReadString(data, nil)
	if !rok || data[0] != '"' {
		return
	}
	vReach("C06.unescape-wellformed")
	content := data[1 : rend-1]
	dst := vMakeDst(pre, spare)
	var keep [4]byte
	for i := 0; i < pre && i < 4; i++ {
		keep[i] = dst[i]
	}
	out, p, err := UnescapeStringContent(content, dst)
	vAssert(err == nil, "C06.unescape-success")
	if err == nil {
		vAssert(p == len(content), "C06.unescape-consumes-all")
		vAssert(len(out) == pre+len(want), "C06.unescape-length")
		if len(out) == pre+len(want) {
			vAssert(vBytesEq(out[:pre], keep[:pre]), "C06.unescape-prefix-kept")
			vAssert(vBytesEq(out[pre:], want), "C06.unescape-content")
		}
	}
}

// ---- C17 ---------------------------------------------------------------
func vH_C17(data []byte, pre, spare int) {
	want := vRefSanitizeUTF8(data, nil)
	got := StdLibCompatibleString(string(data))
	vReach("C17.compared")
	vAssert(got == string(want), "C17.string")
	dst := vMakeDst(pre, spare)
	var keep [4]byte
	for i := 0; i < pre && i < 4; i++ {
		keep[i] = dst[i]
	}
	out := StdLibCompatibleStringBytes(data, dst)
	vAssert(len(out) == pre+len(want), "C17.bytes-length")
	if len(out) == pre+len(want) {
		vAssert(vBytesEq(out[:pre], keep[:pre]), "C17.bytes-prefix-kept")
		vAssert(vBytesEq(out[pre:], want), "C17.bytes-content")
	}
	// idempotence and identity on valid UTF-8 follow from agreement with the reference
	// (the reference is the identity on well-formed input and its output is well-formed);
	// checked here directly as well
	again := StdLibCompatibleString(got)
	vAssert(again == got, "C17.idempotent")
}

// ---- number contract used by the generic-decoding harnesses (C03, C08, C15) ----
// fp.ParseJSONFloatPrefix is replaced (by an executor hook) with vFloatStub: the
// literal is delimited by the reference number grammar, its value and its
// "does not fit float64" verdict are uninterpreted functions of the literal's
// bytes (vNumValue / vNumOverflows are executor intrinsics). What the real
// conversion computes is the subject of C04; that the real scanner delimits the
// same literal is checked by the C04 scanner harness.
var vErrNumSyntax error = &vErr{}
var vErrNumRange error = &vErr{}

func vFloatStub(data []byte) (float64, int, error) {
	if len(data) == 0 || !(data[0] == '-' || vIsDigit(data[0])) {
		return 0, 0, vErrNumSyntax
	}
	end, ok := vRefNumberEnd(data, 0)
	if !ok {
		return 0, 0, vErrNumSyntax
	}
	if vNumOverflows(data[:end]) {
		return 0, end, vErrNumRange
	}
	return vNumValue(data[:end]), end, nil
}

// ---- reference generic decoder (R-TREE) ------------------------------------
// data[p:] starts a well-formed value (established by vRefValueEnd beforehand).
// ok is false when a number inside does not fit float64.
func vRefDecode(data []byte, p int) (interface{}, int, bool) {
	c := data[p]
	switch {
	case c == '"':
		e, _ := vRefStringEnd(data, p)
		return string(vRefUnescape(data[p+1:e-1], nil)), e, true
	case c == 't':
		return true, p + 4, true
	case c == 'f':
		return false, p + 5, true
	case c == 'n':
		return nil, p + 4, true
	case c == '[':
		arr := []interface{}{}
		p = vSkipWS(data, p+1)
		if data[p] == ']' {
			return arr, p + 1, true
		}
		for {
			v, e, ok := vRefDecode(data, p)
			if !ok {
				return nil, 0, false
			}
			arr = append(arr, v)
			p = vSkipWS(data, e)
			if data[p] == ']' {
				return arr, p + 1, true
			}
			p = vSkipWS(data, p+1)
		}
	case c == '{':
		obj := map[string]interface{}{}
		p = vSkipWS(data, p+1)
		if data[p] == '}' {
			return obj, p + 1, true
		}
		for {
			ke, _ := vRefStringEnd(data, p)
			key := string(vRefUnescape(data[p+1:ke-1], nil))
			p = vSkipWS(data, ke)
			p = vSkipWS(data, p+1)
			v, e, ok := vRefDecode(data, p)
			if !ok {
				return nil, 0, false
			}
			obj[key] = v
			p = vSkipWS(data, e)
			if data[p] == '}' {
				return obj, p + 1, true
			}
			p = vSkipWS(data, p+1)
		}
	}
	e, _ := vRefNumberEnd(data, p)
	if vNumOverflows(data[p:e]) {
		return nil, 0, false
	}
	return vNumValue(data[p:e]), e, true
}

func vTreeEq(a, b interface{}) bool {
	switch x := a.(type) {
	case nil:
		return b == nil
	case bool:
		y, ok := b.(bool)
		return ok && x == y
	case float64:
		y, ok := b.(float64)
		return ok && x == y
	case string:
		y, ok := b.(string)
		return ok && x == y
	case []interface{}:
		y, ok := b.([]interface{})
		if !ok || len(x) != len(y) {
			return false
		}
		for i := 0; i < len(x); i++ {
			if !vTreeEq(x[i], y[i]) {
				return false
			}
		}
		return true
	case map[string]interface{}:
		y, ok := b.(map[string]interface{})
		if !ok || len(x) != len(y) {
			return false
		}
		for k, v := range x {
			w, ok := y[k]
			if !ok || !vTreeEq(v, w) {
				return false
			}
		}
		return true
	}
	return false
}

// ---- C03 ---------------------------------------------------------------
// which: 0 ReadValue, 1 ReadObject, 2 ReadArray (package-level forms: fresh reader)
func vH_C03(data []byte, which int) {
	ws := vSkipWS(data, 0)
	end, wf := vRefSkip(data)
	var want interface{}
	fits := false
	if wf {
		want, _, fits = vRefDecode(data, ws)
	}
	okWant := wf && fits
	var got interface{}
	var p int
	var err error
	switch which {
	case 0:
		got, p, err = ReadValue(data)
	case 1:
		var m map[string]interface{}
		m, p, err = ReadObject(data)
		if err == nil {
			got = m
		}
		okWant = okWant && data[ws] == '{'
	default:
		var a []interface{}
		a, p, err = ReadArray(data)
		if err == nil {
			got = a
		}
		okWant = okWant && data[ws] == '['
	}
	vReach("C03.returned")
	vAssert((err == nil) == okWant, "C03.success")
	if err == nil && okWant {
		vReach("C03.success")
		vAssert(p == end, "C03.offset")
		vAssert(vTreeEq(got, want), "C03.tree")
	}
}

// ---- C15 ---------------------------------------------------------------
func vReaderCall(which int, r *ValueReader, data []byte) (interface{}, int, error) {
	switch which {
	case 0:
		return r.ReadValue(data)
	case 1:
		m, p, err := r.ReadObject(data)
		if err != nil {
			return nil, p, err
		}
		return m, p, nil
	}
	a, p, err := r.ReadArray(data)
	if err != nil {
		return nil, p, err
	}
	return a, p, nil
}

// vMutate modifies a result the way a caller might
func vMutate(v interface{}) {
	switch x := v.(type) {
	case []interface{}:
		if len(x) > 0 {
			x[0] = "verif-mutated"
		}
	case map[string]interface{}:
		x["verif-mutated"] = true
	}
}

// a call on document A, then a call on document B with the same reader; B's result must
// equal a fresh reader's, A's result must still be A's value afterwards, also after the
// caller modified B's result.
func vH_C15(a []byte, b []byte, w1 int, w2 int) {
	var r ValueReader
	g1, _, e1 := vReaderCall(w1, &r, a)
	var want1 interface{}
	if e1 == nil {
		want1, _, _ = vRefDecode(a, vSkipWS(a, 0))
	}
	g2, p2, e2 := vReaderCall(w2, &r, b)
	var fresh ValueReader
	f2, fp2, fe2 := vReaderCall(w2, &fresh, b)
	vReach("C15.second-call")
	vAssert((e2 == nil) == (fe2 == nil), "C15.same-success")
	if e2 == nil && fe2 == nil {
		vReach("C15.second-ok")
		vAssert(p2 == fp2, "C15.same-offset")
		vAssert(vTreeEq(g2, f2), "C15.same-tree")
	}
	if e1 == nil {
		vReach("C15.first-ok")
		vAssert(vTreeEq(g1, want1), "C15.earlier-result-unchanged")
		if e2 == nil {
			vMutate(g2)
			vAssert(vTreeEq(g1, want1), "C15.earlier-result-unchanged-after-mutation")
		}
	}
}

// the caller reuses its input buffer: after the first call the second document is written over the
// first one's bytes (same backing array, same offsets) and read with the same reader. Whatever the
// reader remembered about the first input (positions, sub-slices of it) must not leak into the
// second result, and the first result must not change when its input is overwritten.
func vH_C15_alias(a []byte, b []byte, w1 int, w2 int) {
	var r ValueReader
	g1, _, e1 := vReaderCall(w1, &r, a)
	var want1 interface{}
	if e1 == nil {
		want1, _, _ = vRefDecode(a, vSkipWS(a, 0))
	}
	in := b
	if len(b) <= len(a) {
		n := copy(a, b)
		in = a[:n]
	}
	g2, p2, e2 := vReaderCall(w2, &r, in)
	var fresh ValueReader
	f2, fp2, fe2 := vReaderCall(w2, &fresh, b)
	vReach("C15.alias-second-call")
	vAssert((e2 == nil) == (fe2 == nil), "C15.alias.same-success")
	if e2 == nil && fe2 == nil {
		vReach("C15.alias-second-ok")
		vAssert(p2 == fp2, "C15.alias.same-offset")
		vAssert(vTreeEq(g2, f2), "C15.alias.same-tree")
	}
	if e1 == nil {
		vAssert(vTreeEq(g1, want1), "C15.alias.earlier-result-unchanged")
	}
}

// three calls: A, then B (possibly failing), then C compared with fresh; A's result must survive
func vH_C15_three(a []byte, b []byte, c []byte, w1, w2, w3 int) {
	var r ValueReader
	g1, _, e1 := vReaderCall(w1, &r, a)
	var want1 interface{}
	if e1 == nil {
		want1, _, _ = vRefDecode(a, vSkipWS(a, 0))
	}
	g2, _, e2 := vReaderCall(w2, &r, b)
	var want2 interface{}
	if e2 == nil {
		want2, _, _ = vRefDecode(b, vSkipWS(b, 0))
	}
	g3, p3, e3 := vReaderCall(w3, &r, c)
	var fresh ValueReader
	f3, fp3, fe3 := vReaderCall(w3, &fresh, c)
	vReach("C15.third-call")
	vAssert((e3 == nil) == (fe3 == nil), "C15.3.same-success")
	if e3 == nil && fe3 == nil {
		vAssert(p3 == fp3, "C15.3.same-offset")
		vAssert(vTreeEq(g3, f3), "C15.3.same-tree")
	}
	if e1 == nil {
		vAssert(vTreeEq(g1, want1), "C15.3.first-result-unchanged")
		if e3 == nil {
			vMutate(g3)
			vAssert(vTreeEq(g1, want1), "C15.3.first-result-unchanged-after-mutation")
		}
	}
	if e2 == nil {
		vAssert(vTreeEq(g2, want2), "C15.3.second-result-unchanged")
		if e3 == nil && e1 != nil {
			vMutate(g3)
			vAssert(vTreeEq(g2, want2), "C15.3.second-result-unchanged-after-mutation")
		}
	}
}

// ---- C08 ---------------------------------------------------------------
// A decoder written only against the public API in the documented style: peek the
// token type, then read or skip the value with any admissible call, always resuming
// at the offset that call reported. `validating` restricts it to validating calls.
type vCompHandler struct {
	validating bool
	failed     bool
}

func (h *vCompHandler) HandleArrayValue(data []byte) (int, error) {
	p, ok := vCompose(data, h.validating)
	if !ok {
		h.failed = true
		return 0, vErrStop
	}
	return p, nil
}

func (h *vCompHandler) HandleObjectValue(key, data []byte) (int, error) {
	p, ok := vCompose(data, h.validating)
	if !ok {
		h.failed = true
		return 0, vErrStop
	}
	return p, nil
}

func vCompose(data []byte, validating bool) (int, bool) {
	tt, tp, err := NextTokenType(data)
	if err != nil {
		return 0, false
	}
	start := tp - 1
	d := data[start:]
	strat := vNondetInt("strategy")
	vAssume(strat >= 0 && strat <= 2)
	var pp int
	switch tt {
	case StringType:
		switch strat {
		case 0:
			_, pp, err = ReadString(d, nil)
		case 1:
			_, pp, err = ReadStringBytes(d, nil)
		default:
			if validating || vNondetBool("fast") {
				pp, err = SkipValue(d, nil)
			} else {
				pp, err = SkipValueFast(d, nil)
			}
		}
	case NumberType:
		switch strat {
		case 0:
			_, pp, err = ReadFloat64(d)
		case 1:
			_, pp, err = ReadInt64(d)
			if err != nil {
				_, pp, err = ReadFloat64(d)
			}
		default:
			pp, err = SkipValue(d, nil)
		}
	case TrueType, FalseType:
		if strat == 0 {
			_, pp, err = ReadBool(d)
		} else {
			pp, err = SkipValue(d, nil)
		}
	case NullType:
		if strat == 0 {
			pp, err = ReadNull(d)
		} else {
			pp, err = SkipValue(d, nil)
		}
	case ArrayStartType:
		switch strat {
		case 0:
			h := &vCompHandler{validating: validating}
			pp, err = HandleArrayValues(d, h, nil)
		case 1:
			pp, err = SkipValue(d, nil)
		default:
			if validating {
				pp, err = SkipValue(d, nil)
			} else {
				pp, err = SkipValueFast(d, nil)
			}
		}
	case ObjectStartType:
		switch strat {
		case 0:
			h := &vCompHandler{validating: validating}
			pp, err = HandleObjectValues(d, h, nil)
		case 1:
			pp, err = SkipValue(d, nil)
		default:
			if validating {
				pp, err = SkipValue(d, nil)
			} else {
				pp, err = SkipValueFast(d, nil)
			}
		}
	default:
		return 0, false
	}
	if err != nil {
		return 0, false
	}
	return start + pp, true
}

func vH_C08(data []byte, validating bool) {
	end, ok := vRefSkip(data)
	p, cok := vCompose(data, validating)
	vReach("C08.composed")
	if ok {
		vReach("C08.direct-ok")
		vAssert(cok, "C08.composition-succeeds")
		if cok {
			vAssert(p == end, "C08.same-final-offset")
		}
	} else if validating {
		vAssert(!cok, "C08.validating-composition-fails")
	}
}

// ---- C16 ---------------------------------------------------------------
func vClone(b []byte) []byte {
	c := make([]byte, len(b))
	copy(c, b)
	return c
}

// no function writes to its input; which selects a group of entry points
func vH_C16_inputs(data []byte, which int) {
	snap := vClone(data)
	vReach("C16.inputs")
	switch which {
	case 0:
		SkipValue(data, nil)
		SkipValueFast(data, nil)
		Valid(data, nil)
		NextToken(data)
		NextTokenType(data)
		ReadNull(data)
		ReadBool(data)
		ReadInt64(data)
		ReadUint64(data)
		ReadInt32(data)
		ReadUint32(data)
	case 1:
		dst := make([]byte, 0, 2)
		ReadStringBytes(data, dst)
		ReadString(data, &dst)
		var s string
		DecodeString(data, &s, nil)
		UnescapeStringContent(data, dst)
		StdLibCompatibleStringBytes(data, dst)
	case 2:
		h := &vHandler{whole: data}
		HandleArrayValues(data, h, nil)
		h2 := &vHandler{whole: data}
		HandleObjectValues(data, h2, &Buffer{})
	default:
		var r ValueReader
		r.ReadValue(data)
		r.ReadValue(data)
	}
	vAssert(vBytesEq(data, snap), "C16.input-unchanged")
}

// returned strings and trees own their memory: clobber the input copy and every buffer
// afterwards and compare with the value computed from the pristine input
func vClobber(b []byte) {
	for i := 0; i < len(b); i++ {
		b[i] = 'X'
	}
}

func vH_C16_owned(data []byte, bufcap int) {
	vReach("C16.owned")
	work := vClone(data)
	var buf []byte
	if bufcap > 0 {
		buf = make([]byte, 1, bufcap)
	}
	s, _, err := ReadString(work, &buf)
	want, _, rok := vRefReadString(data, nil)
	var r ValueReader
	work2 := vClone(data)
	tree, _, terr := r.ReadValue(work2)
	var wantTree interface{}
	_, wf := vRefSkip(data)
	fits := false
	if wf {
		wantTree, _, fits = vRefDecode(data, vSkipWS(data, 0))
	}
	// later changes to input and buffers
	vClobber(work)
	vClobber(work2)
	vClobber(buf[:cap(buf)])
	r.ReadValue([]byte(`["XXXXXXXX",{"XXXXXXXX":"XXXXXXXX"}]`))
	if err == nil && rok {
		vAssert(s == string(want), "C16.string-owns-memory")
	}
	if terr == nil && wf && fits {
		vAssert(vTreeEq(tree, wantTree), "C16.tree-owns-memory")
	}
}

// ---- C19 ---------------------------------------------------------------
// group: which functions are measured. The first (unmeasured) call warms the Buffer on the
// same document with a handler that declines every member (deepest use of the stack).
func vC19Call(group int, data []byte, buf *Buffer, dst []byte, h *vHandler) bool {
	switch group {
	case 0:
		_, err := SkipValue(data, buf)
		return err == nil
	case 1:
		_, err := SkipValueFast(data, buf)
		return err == nil
	case 2:
		return Valid(data, buf)
	case 3:
		_, err := HandleArrayValues(data, h, buf)
		return err == nil
	case 4:
		_, err := HandleObjectValues(data, h, buf)
		return err == nil
	case 5:
		_, _, err := ReadStringBytes(data, dst)
		return err == nil
	case 6:
		_, _, err := UnescapeStringContent(data, dst)
		return err == nil
	case 7:
		_, _, e1 := NextToken(data)
		_, _, e2 := NextTokenType(data)
		return e1 == nil && e2 == nil
	case 8:
		_, err := ReadNull(data)
		return err == nil
	case 9:
		_, _, err := ReadBool(data)
		return err == nil
	case 10:
		_, _, err := ReadInt64(data)
		return err == nil
	case 11:
		_, _, err := ReadUint64(data)
		return err == nil
	case 12:
		_, _, e1 := ReadInt32(data)
		_, _, e2 := ReadUint32(data)
		_, _, e3 := ReadInt(data)
		_, _, e4 := ReadUint(data)
		return e1 == nil && e2 == nil && e3 == nil && e4 == nil
	case 13:
		var a int64
		var b uint64
		var c int32
		var d uint32
		var e int
		var f uint
		_, e1 := DecodeInt64(data, &a)
		_, e2 := DecodeUint64(data, &b)
		_, e3 := DecodeInt32(data, &c)
		_, e4 := DecodeUint32(data, &d)
		_, e5 := DecodeInt(data, &e)
		_, e6 := DecodeUint(data, &f)
		return e1 == nil && e2 == nil && e3 == nil && e4 == nil && e5 == nil && e6 == nil
	case 14:
		var v bool
		_, err := DecodeBool(data, &v)
		return err == nil
	}
	var f float64
	_, _, e1 := ReadFloat64(data)
	_, e2 := DecodeFloat64(data, &f)
	return e1 == nil && e2 == nil
}

func vH_C19(data []byte, group int, mid []byte) {
	buf := &Buffer{}
	dst := make([]byte, 0, len(data)+4)
	warm := &vHandler{whole: data, mode: 4}
	vC19Call(group, data, buf, dst, warm)
	if len(mid) > 0 {
		// any other use of the same Buffer in between (possibly failing) must not un-warm it
		SkipValue(mid, buf)
		Valid(mid, buf)
		SkipValueFast(mid, buf)
		hm := &vHandler{whole: mid, mode: 4}
		HandleArrayValues(mid, hm, buf)
		HandleObjectValues(mid, hm, buf)
	}
	h := &vHandler{whole: data}
	vReach("C19.warmed")
	vAllocWatch(true)
	ok := vC19Call(group, data, buf, dst, h)
	vAllocWatch(false)
	if ok {
		vReach("C19.success")
		vAssert(vAllocs() == 0, "C19.zero-allocations")
	}
}

// native confirmation for allocation sites found by the static scan of the float path
var vFloatBattery = []string{
	"1", "-0", "1.5", "1e23", "100000000000000016777215", "9007199254740993", "4.9e-324", "2.2250738585072011e-308",
	"1.7976931348623157e308", "123456789012345678901234567890", "0.000000000000000000000000000000000000000000001",
	"1.00000000000000011102230246251565404236316680908203125",
	"2.22507385850720113605740979670913197593481954635164564e-308",
	"8.98846567431157953864652595394512366808988489471153286367150405788663379027504815663542386612037680105600569399356966788293948844072083112464237153197370621888839467124327426381511098006230470597265414760425028844190753411712314407369565552704136185816752553422931491199736229692398582528885087897927741455e307",
}

func vH_C19_floatbattery() {
	for _, lit := range vFloatBattery {
		d := []byte(lit)
		var f float64
		ReadFloat64(d)
		vAllocWatch(true)
		_, _, err := ReadFloat64(d)
		_, err2 := DecodeFloat64(d, &f)
		vAllocWatch(false)
		if err == nil && err2 == nil {
			vAssert(vAllocs() == 0, "C19.float-battery")
		}
	}
}

// ---- C17: slice / map helpers on small trees ---------------------------------
func vSanitizeRefTree(v interface{}) interface{} {
	switch x := v.(type) {
	case string:
		return string(vRefSanitizeUTF8([]byte(x), nil))
	case []interface{}:
		out := make([]interface{}, len(x))
		for i := 0; i < len(x); i++ {
			out[i] = vSanitizeRefTree(x[i])
		}
		return out
	case map[string]interface{}:
		out := map[string]interface{}{}
		for k, w := range x {
			out[string(vRefSanitizeUTF8([]byte(k), nil))] = vSanitizeRefTree(w)
		}
		return out
	}
	return v
}

// two structurally identical trees built from the same bytes: one is passed to the helper,
// the other is the untouched copy the argument is compared with afterwards
func vBuildTree(d []byte, shape int) interface{} {
	s1 := string(d[0:2])
	s2 := string(d[2:3])
	s3 := string(d[3:4])
	k := string(d[4:5])
	switch shape {
	case 0:
		return []interface{}{s1, []interface{}{s2, []interface{}{s3}}, 1.5, nil}
	case 1:
		return map[string]interface{}{k: s1, "in": map[string]interface{}{"x": []interface{}{s2}}, "b": true}
	case 2:
		return []interface{}{map[string]interface{}{k: []interface{}{s1, s2}}, s3}
	}
	return map[string]interface{}{"a": []interface{}{[]interface{}{s1}, map[string]interface{}{k: s2}}, "z": s3}
}

func vH_C17_tree(d []byte, shape int) {
	arg := vBuildTree(d, shape)
	pristine := vBuildTree(d, shape)
	want := vSanitizeRefTree(pristine)
	var got interface{}
	switch x := arg.(type) {
	case []interface{}:
		got = StdLibCompatibleSlice(x)
	case map[string]interface{}:
		// keys must not collide after replacement for the comparison to be meaningful
		got = StdLibCompatibleMap(x)
	}
	vReach("C17.tree")
	vAssert(vTreeEq(got, want), "C17.tree-result")
	vAssert(vTreeEq(arg, pristine), "C17.tree-argument-unmodified")
	// the result is a deep copy: changing it must not change the argument
	vMutate(got)
	vAssert(vTreeEq(arg, pristine), "C17.tree-result-independent")
}

// ---- C20 ---------------------------------------------------------------
// Marginal-cost obligations. Two documents that differ by one extra member (or one extra
// nesting level, or one extra escape) are decoded from the same arbitrary reader state (size
// hints a history may have left behind are free variables, the same for both runs); the extra
// member may cost at most vC20A bytes per byte it adds plus vC20B. A member whose cost is
// proportional to a hint, to the unread remainder of the document or to what was decoded before
// it makes the total super-linear when repeated; that is what this rejects.
const (
	vC20A = 1536
	vC20B = 4096
)

func vHint(name string) int {
	h := vNondetInt(name)
	vAssume(h >= 0 && h <= 1<<20)
	return h
}

type vHints struct{ a, b, c, d, e, f int }

func vNewHints() vHints {
	return vHints{vHint("lastMap"), vHint("maxMap"), vHint("lastSlice"), vHint("childLastMap"), vHint("childMaxMap"), vHint("childLastSlice")}
}

// a reader in the state some history left it in: hints on the reader and on a pooled child
func vHintedReader(h vHints) (*ValueReader, *ValueReader) {
	r := &ValueReader{lastMapSize: h.a, maxMapSize: h.b, lastSliceSize: h.c}
	child := &ValueReader{lastMapSize: h.d, maxMapSize: h.e, lastSliceSize: h.f}
	r.pool.Put(child)
	return r, child
}

// what the size hints still held by the readers entitle later calls to allocate
func vPotential(r, child *ValueReader) int {
	return 48*(r.lastMapSize+r.maxMapSize+child.lastMapSize+child.maxMapSize) + 16*(r.lastSliceSize+child.lastSliceSize)
}

// bytes allocated by one call plus the potential it leaves behind: a call may spend a hint an
// earlier call left (once), and has to account for the hints it leaves
func vC20Cost(which int, h vHints, doc []byte) int {
	r, child := vHintedReader(h)
	vCostReset()
	switch which {
	case 0:
		r.ReadValue(doc)
	case 1:
		r.ReadObject(doc)
	case 2:
		r.ReadArray(doc)
	case 3:
		ReadStringBytes(doc, nil)
	case 4:
		SkipValue(doc, nil)
	case 5:
		var hh vHandler
		hh.mode = 4
		HandleArrayValues(doc, &hh, nil)
	default:
		Valid(doc, &Buffer{})
	}
	return vCostBytes() + vPotential(r, child)
}

func vH_C20(small []byte, big []byte, which int) {
	h := vNewHints()
	c1 := vC20Cost(which, h, small)
	c2 := vC20Cost(which, h, big)
	vReach("C20.marginal")
	vAssertCost(c2-c1 <= vC20A*(len(big)-len(small))+vC20B, "C20.marginal-cost-linear")
}

// One call from an arbitrary reader state, failing calls included: what it allocates, plus the potential of the
// hints it leaves, minus the potential of the hints it found, is bounded by A*len(doc)+B. A call that pays for a
// hint an earlier document left must use it up; a hint that survives a call that spent it is paid again by every
// later call ("a reader that has once processed a large document does not make later small documents expensive").
func vH_C20_call(doc []byte, which int) {
	h := vNewHints()
	before := 48*(h.a+h.b+h.d+h.e) + 16*(h.c+h.f)
	c := vC20Cost(which, h, doc)
	vReach("C20.call")
	vAssertCost(c-before <= vC20A*len(doc)+vC20B, "C20.call-cost-amortised")
}

// ---- C13: readers are type-exclusive -----------------------------------------
func vH_C13_exclusive(data []byte) {
	tt, _, terr := NextTokenType(data)
	vReach("C13.exclusive")
	okType := func(want TokenType) bool { return terr == nil && tt == want }
	if _, _, err := ReadBool(data); err == nil {
		vAssert(okType(TrueType) || okType(FalseType), "C13.bool-only-on-bool")
	}
	if _, err := ReadNull(data); err == nil {
		vAssert(okType(NullType), "C13.null-only-on-null")
	}
	if _, _, err := ReadString(data, nil); err == nil {
		vAssert(okType(StringType), "C13.string-only-on-string")
	}
	if _, _, err := ReadStringBytes(data, nil); err == nil {
		vAssert(okType(StringType), "C13.stringbytes-only-on-string")
	}
	if _, _, err := ReadInt64(data); err == nil {
		vAssert(okType(NumberType), "C13.int64-only-on-number")
	}
	if _, _, err := ReadUint64(data); err == nil {
		vAssert(okType(NumberType), "C13.uint64-only-on-number")
	}
	if _, _, err := ReadInt32(data); err == nil {
		vAssert(okType(NumberType), "C13.int32-only-on-number")
	}
	if _, _, err := ReadUint32(data); err == nil {
		vAssert(okType(NumberType), "C13.uint32-only-on-number")
	}
	if _, _, err := ReadInt(data); err == nil {
		vAssert(okType(NumberType), "C13.int-only-on-number")
	}
	if _, _, err := ReadUint(data); err == nil {
		vAssert(okType(NumberType), "C13.uint-only-on-number")
	}
	if _, _, err := ReadFloat64(data); err == nil {
		vAssert(okType(NumberType), "C13.float-only-on-number")
	}
	if _, _, err := ReadObject(data); err == nil {
		vAssert(okType(ObjectStartType), "C13.object-only-on-object")
	}
	if _, _, err := ReadArray(data); err == nil {
		vAssert(okType(ArrayStartType), "C13.array-only-on-array")
	}
}

// ---- C04: every API that decodes numbers to float64 gives ReadFloat64's value ------------
func vH_C04_api(data []byte) {
	f, p, err := ReadFloat64(data)
	if err != nil {
		return
	}
	vReach("C04.api-number")
	v, pv, errv := ReadValue(data)
	vAssert(errv == nil && pv == p, "C04.api-readvalue-accepts")
	if errv == nil {
		g, ok := v.(float64)
		vAssert(ok, "C04.api-readvalue-type")
		if ok {
			vAssert(vFloatSame(g, f), "C04.api-readvalue-same-bits")
		}
	}
	var d float64 = 1
	pd, errd := DecodeFloat64(data, &d)
	vAssert(errd == nil && pd == p, "C04.api-decode-accepts")
	if errd == nil {
		vAssert(vFloatSame(d, f), "C04.api-decode-same-bits")
	}
	var r ValueReader
	arr, _, erra := r.ReadArray(append(append([]byte{'['}, data[:p]...), ']'))
	if erra == nil && len(arr) == 1 {
		g, ok := arr[0].(float64)
		vAssert(ok && vFloatSame(g, f), "C04.api-array-leaf-same-bits")
	}
}

// ---- C20: one growth step of the nesting stack is amortised ---------------------------------------
// A Buffer whose stack holds L entries; an array nested L+2 deep is traversed with a handler that declines
// every member, so the machine itself descends and must grow the stack once or twice at fill level L.
func vH_C20_stackstep(doc []byte, L int) {
	buf := vMakeBufferLen(L)
	var hh vHandler
	hh.mode = 4
	vCostReset()
	HandleArrayValues(doc, &hh, buf)
	cost := vCostBytes()
	vReach("C20.stackstep")
	slack := vBufferCap(buf) - L
	vAssertCost(cost <= 8*8*(slack+1)+4096, "C20.stack-growth-step-amortised")
}
