#!/usr/bin/env python3
"""Entry point: check.py <property id> [--tier quick|thorough]  |  check.py replay <file>"""
import argparse
import importlib
import json
import os
import sys

HERE = os.path.dirname(os.path.abspath(__file__))
sys.path.insert(0, HERE)
sys.path.insert(0, os.path.join(HERE, 'engine'))


def main():
    if len(sys.argv) >= 2 and sys.argv[1] == 'replay':
        from checks.common import native_replay
        d = json.load(open(sys.argv[2]))
        out = native_replay([('r', d['script'], d['call'])], scale_depth=d.get('scale_depth'), pkgdir=d.get('pkgdir', '.'))
        v = out.get('r', ('MISSING', ''))
        print('replay %s: %s %s' % (d['call'][:200], v[0], v[1]))
        if v[0] in ('FAIL', 'PANIC'):
            print('VIOLATION property=%s replay=%s' % (d['property'], sys.argv[2]))
            sys.exit(1)
        sys.exit(0)
    ap = argparse.ArgumentParser()
    ap.add_argument('pid')
    ap.add_argument('--tier', default=os.environ.get('VERIF_TIER', 'quick'))
    ap.add_argument('--nproc', type=int, default=None)
    a = ap.parse_args()
    from checks import props
    fn = getattr(props, 'check_' + a.pid, None)
    if fn is None:
        print('no check registered for %s' % a.pid)
        sys.exit(2)
    try:
        rc = fn(a.tier, a.nproc)
    except Exception as e:
        from checks.common import ToolError
        if isinstance(e, ToolError):
            print('tool error (no verdict): %s' % e)
            sys.exit(2)
        raise
    sys.exit(rc)


if __name__ == '__main__':
    main()
