"""Shared runner for the per-property checks (bounded symbolic runs of Go harness
functions, candidate confirmation by solver + native replay, evidence)."""
import hashlib
import re
import json
import multiprocessing as mp
import os
import shutil
import sys
import tempfile
import time
import traceback

sys.path.insert(0, os.path.join(os.path.dirname(os.path.abspath(__file__)), '..', 'engine'))

from gosym.driver import (Session, build_program, native_replay, go_bytes, concrete_input,  # noqa: E402
                          load_known_findings, write_evidence, ToolError, RJSON, FP, VERIF, REPO)
from gosym.terms import Term, sgn  # noqa: E402
from gosym.mdd import TRUE  # noqa: E402

_PROG = None
_PROG_SCALED = None
_ESCAPES = None
_SEED = 0
_DEFAULT_TIMEOUT = 600


class Job:
    """one bounded symbolic run: harness function + argument recipe"""

    def __init__(self, harness, args, label=None, pkg=RJSON, timeout=None, weight=1, opts=None):
        self.harness = harness
        self.args = args          # list of ('bytes', name, n) | ('int', v) | ('cbytes', b, extra_cap) | ('nil',)
        self.label = label or '%s(%s)' % (harness, ','.join(_argstr(a) for a in args))
        self.pkg = pkg
        self.timeout = timeout
        self.weight = weight
        self.opts = opts or {}


def _argstr(a):
    if a[0] == 'bytes':
        if len(a) > 3 and a[3]:
            return 'sym[%d|%s]' % (a[2], '.'.join(_maskstr(m) for m in a[3]))
        return 'sym[%d]' % a[2]
    if a[0] == 'int':
        return str(a[1])
    if a[0] == 'bytescap':
        return 'sym[%d|cap+%d]' % (a[2], a[3])
    if a[0] == 'tmpl':
        return 'tmpl[' + _tmpl_str(a[2]) + ']'
    if a[0] == 'cbytes':
        return repr(bytes(a[1]))
    if a[0] == 'bool':
        return 'true' if a[1] else 'false'
    return a[0]


def _tmpl_str(parts):
    out = ''
    for p in parts:
        if isinstance(p, int):
            out += '?' * p
        elif isinstance(p, tuple):
            out += {'digit': 'D', 'digit19': 'N', 'hex': 'H', 'ws': '_', 'sign': 'S'}[p[1]] * p[0]
        else:
            out += bytes(p).decode('latin1')
    # long runs of one character are written c{n}
    return re.sub(r'(.)\1{11,}', lambda m: '%s{%d}' % (m.group(1), len(m.group(0))), out)


def _maskstr(m):
    n = bin(m).count('1')
    if n == 1:
        return '%02x' % (m.bit_length() - 1)
    if n > 128:
        return '~' + _maskstr(((1 << 256) - 1) & ~m)
    return '{%d}' % n


def byte_mask(*vals):
    m = 0
    for v in vals:
        m |= 1 << (v if isinstance(v, int) else ord(v))
    return m


FULLMASK = (1 << 256) - 1
CLASSES = {'digit': byte_mask(*'0123456789'), 'digit19': byte_mask(*'123456789'), 'hex': byte_mask(*'0123456789abcdefABCDEF'),
           'ws': byte_mask(' ', '\t', '\r', '\n'), 'sign': byte_mask('+', '-')}
SPLIT_CLASSES = [byte_mask('['), byte_mask('{'), byte_mask(' ', '\t', '\r', '\n')]
SPLIT_CLASSES.append(FULLMASK & ~(SPLIT_CLASSES[0] | SPLIT_CLASSES[1] | SPLIT_CLASSES[2]))


def prefix_splits(k):
    """partition of the input space by the classes of the first k bytes"""
    out = [[]]
    for _ in range(k):
        out = [p + [c] for p in out for c in SPLIT_CLASSES]
    return out


def _make_args(job, cellsout):
    def mk(ex, st):
        out = []
        for a in job.args:
            if a[0] == 'bytes':
                s, cells = ex.new_bytes(st, a[1], a[2])
                cellsout.append((a[1], cells))
                out.append(s)
                if len(a) > 3 and a[3]:
                    # case split: restrict the first bytes to the given value sets
                    for i, m in enumerate(a[3]):
                        v = ex.store.var_of(cells[i])
                        st.pc = ex.mdd.and_byte(st.pc, v.order, m)
            elif a[0] == 'bytescap':
                # n symbolic bytes followed by `extra` stale symbolic bytes between len and cap
                s, cells = ex.new_bytes(st, a[1], a[2] + a[3])
                cellsout.append((a[1], cells))
                out.append(('S', s[1], (), 0, a[2], a[2] + a[3]))
            elif a[0] == 'tmpl':
                # template: concrete skeleton bytes with runs of symbolic bytes
                cells = []
                for part in a[2]:
                    if isinstance(part, int):
                        for _ in range(part):
                            cells.append(ex.store.newvar('%s_%d' % (a[1], len(cells)), 8, 'byte'))
                    elif isinstance(part, tuple):
                        # (count, class): symbolic bytes restricted to a value set
                        k, cls = part
                        m = CLASSES[cls]
                        for _ in range(k):
                            t = ex.store.newvar('%s_%d' % (a[1], len(cells)), 8, 'byte')
                            cells.append(t)
                            st.pc = ex.mdd.and_byte(st.pc, ex.store.var_of(t).order, m)
                    else:
                        cells.extend(part)
                cells = tuple(cells)
                oid = ex.newobj(st, ('A', cells), ('input', a[1]))
                ex.readonly.add(oid)
                cellsout.append((a[1], cells))
                out.append(('S', oid, (), 0, len(cells), len(cells)))
            elif a[0] == 'int':
                out.append(a[1] & ((1 << 64) - 1))
            elif a[0] == 'bool':
                out.append(bool(a[1]))
            elif a[0] == 'cbytes':
                out.append(ex.concrete_bytes(st, 'c', a[1], a[2] if len(a) > 2 else 0))
            elif a[0] == 'nil':
                out.append(None)
            else:
                raise ValueError(a)
        return out
    return mk


def go_call(job, inputs):
    """Go expression calling the harness with concrete inputs"""
    parts = []
    for a in job.args:
        if a[0] == 'bytes' or a[0] == 'tmpl':
            parts.append(go_bytes(inputs[a[1]]))
        elif a[0] == 'bytescap':
            parts.append('%s[:%d]' % (go_bytes(inputs[a[1]]), a[2]))
        elif a[0] == 'int':
            parts.append(str(a[1]))
        elif a[0] == 'bool':
            parts.append('true' if a[1] else 'false')
        elif a[0] == 'cbytes':
            parts.append(go_bytes(bytes(a[1])))
        elif a[0] == 'nil':
            parts.append('nil')
    return '%s(%s)' % (job.harness, ', '.join(parts))


def _worker(job):
    """runs in a forked process; returns a picklable summary"""
    t0 = time.time()
    res = {'label': job.label, 'pkgdir': ('internal/fp' if job.pkg == FP else '.'), 'harness': job.harness, 'ok': True, 'candidates': [], 'samples': [],
           'stats': {}, 'error': None, 'inexact': 0, 'unsupported': []}
    try:
        sd = job.opts.get('scale_depth')
        res['scale_depth'] = sd
        _p = _PROG_SCALED if sd else _PROG
        ses = Session(_p, seed=_SEED, solver_timeout_ms=job.opts.get('solver_timeout_ms', 20000))
        ex = ses.ex
        for k, v in job.opts.items():
            if k.startswith('ex.'):
                setattr(ex, k[3:], v)
        xs = None
        if job.opts.get('xcheck'):
            from gosym.xcheck import XSampler
            xs = ex.solver.xs = ex.solver.lia.xs = XSampler()
        if job.opts.get('float_contract'):
            ses.use_float_contract()
        if job.opts.get('monitor_alloc'):
            ex.monitor_alloc = True
            ex.escape_lines = _ESCAPES
        if job.opts.get('scanvalue'):
            from gosym.glue import Glue
            gl = Glue(ses)
            ex.hooks[FP + '.vAssertScanValue'] = gl.h_assert_scan
            ex.hooks[FP + '.vAssertShift'] = gl.h_assert_shift
            ex.hooks[FP + '.vAssertSetValue'] = gl.h_assert_set
            ex.hooks[FP + '.vAssertRoundedInt'] = gl.h_assert_roundint
            ex.hooks[FP + '.vAssertHalfwayFits'] = gl.h_assert_halfway
            ex.hooks[FP + '.vAssertScanExpo'] = gl.h_assert_scan_expo
            ex.hooks[FP + '.vAssertSetExpo'] = gl.h_assert_set_expo
        if job.opts.get('bv_only'):
            ex.solver.use_lia = False
        if job.opts.get('absdec'):
            ses.use_absdec()
        elif job.opts.get('slowpath'):
            ses.use_slowpath()
        if job.opts.get('glue'):
            ses.use_glue()
        if job.opts.get('cost_mode'):
            ex.cost_mode = True
        if job.opts.get('fx_model'):
            ses.use_fx_model()
        if job.opts.get('bits_intrinsics'):
            ses.use_bits_intrinsics()
        if job.opts.get('no_float_overflow'):
            ses.no_float_overflow()
        cellsout = []
        tmo = job.timeout or _DEFAULT_TIMEOUT
        deadline = time.time() + tmo if tmo else None
        if (job.pkg + '.' + job.harness) not in _p.funcs:
            raise ToolError('harness %s not present on this tree (optional harness file left out)' % job.harness)
        terms = ses.run(job.pkg + '.' + job.harness, _make_args(job, cellsout), deadline=deadline)
        nbytes = ex.store.nbytevars
        total = 0
        classes = 0
        for st in terms:
            classes += 1
            cnt = ex.mdd.count(st.pc, nbytes) if not st.extras else None
            if cnt is not None:
                total += cnt
            if st.inexact:
                res['inexact'] += 1
            if st.status == 'unsupported':
                res['unsupported'].append(str(st.result))
                continue
            evflags = [f for f in st.flags if f[0] in ('write-to-input', 'global-write')]
            if st.status in ('assertfail', 'panic') or (st.status == 'ok' and evflags):
                kinds = []
                if st.status == 'assertfail':
                    kinds.append(('assert', st.result[0], st.result[1]))
                elif st.status == 'panic':
                    kinds.append(('panic', st.result[0], st.result[1]))
                else:
                    for fk, fs in sorted(evflags):
                        kinds.append(('event', fk + ': ' + fs, ''))
                verdict, assign = ses.model_for(st)
                for kind, what, pos in kinds:
                    c = {'kind': kind, 'what': what, 'pos': pos, 'verdict': verdict}
                    if verdict == 'sat':
                        inputs = {name: concrete_input(ex, assign, cells) for name, cells in cellsout}
                        c['inputs'] = {k: v.hex() for k, v in inputs.items()}
                        c['script'] = [_scriptval(ex, assign, t) for t in st.nondet]
                        c['call'] = go_call(job, inputs)
                        c['count'] = cnt
                    res['candidates'].append(c)
                    if verdict == 'sat' and kind == 'assert' and len(res['candidates']) < 400:
                        # a second witness from the same path class, preferring the digit '0' wherever the
                        # class allows it (boundary values such as -0, 0.0, 00 reproduce what generic models miss)
                        alt = _zero_witness(ses, ex, st, cellsout)
                        if alt is not None:
                            inputs2 = {name: concrete_input(ex, alt, cells) for name, cells in cellsout}
                            if inputs2 != inputs:
                                c2 = dict(c)
                                c2['inputs'] = {k: v.hex() for k, v in inputs2.items()}
                                c2['script'] = [_scriptval(ex, alt, t) for t in st.nondet]
                                c2['call'] = go_call(job, inputs2)
                                res['candidates'].append(c2)
        # samples: concrete members of path classes that reached the harness marks
        for rid, lst in sorted(ses.reach_samples.items()):
            for pc, extras, nondet in lst[:job.opts.get('nsamples', 3)]:
                verdict, assign = ses.model_pc(pc, extras, quick=True)
                if verdict == 'sat':
                    inputs = {name: concrete_input(ex, assign, cells) for name, cells in cellsout}
                    res['samples'].append({'mark': rid, 'job': job.label, 'scale_depth': sd, 'pkgdir': res['pkgdir'], 'inputs': {k: v.hex() for k, v in inputs.items()},
                                           'script': [_scriptval(ex, assign, t) for t in nondet],
                                           'call': go_call(job, inputs),
                                           'count': ex.mdd.count(pc, nbytes) if not extras else None})
        res['classes'] = classes
        res['inputs_covered'] = total
        res['input_space'] = ex.mdd.count(getattr(ses, 'initial_pc', TRUE), nbytes)
        res['partition_complete'] = (total == res['input_space']) if not any(st.extras for st in terms) else None
        res['stats'] = dict(ex.stats)
        sv = dict(ex.solver.stats)
        ls = ex.solver.lia.stats
        sv['solver_s'] = sv.get('solver_s', 0) + ls['solver_s']
        sv['lia_queries'] = ls['sat'] + ls['unsat'] + ls['unknown']
        for k in ('sat', 'unsat', 'unknown'):
            sv[k] = sv.get(k, 0) + ls[k]
        res['solver'] = sv
        res['reach'] = dict(ses.reach)
        res['asserts'] = {k: list(v) for k, v in ses.asserts.items()}
        res['obligations'] = getattr(ses, 'obligations', 0)
        res['events'] = sorted('%s: %s' % k for k in ex.events)
        res['funcs'] = sorted(getattr(ex, 'entered', ()))
        if xs is not None:
            res['xcheck'] = xs.run()
    except (TimeoutError, MemoryError) as e:
        res['ok'] = False
        res['error'] = 'bound not completed: %s' % e
    except ToolError as e:
        res['ok'] = False
        res['error'] = 'tool: %s' % e
    except Exception as e:
        res['ok'] = False
        res['error'] = 'engine error: %s\n%s' % (e, traceback.format_exc()[-1500:])
    res['wall_s'] = time.time() - t0
    return res


def _zero_witness(ses, ex, st, cellsout):
    from gosym.mdd import FULL
    pc = st.pc
    for name, cells in cellsout:
        for t in cells:
            if t.__class__ is Term and t.op == 'var':
                v = ex.store.vars[t.args[0]]
                if v.kind == 'byte' and pc is not None and pc.idx >= 0:
                    m = ex._project(pc, v.order)
                    if m != FULL and (m >> 48) & 1 and m & (m - 1):
                        npc = ex.mdd.and_byte(pc, v.order, 1 << 48)
                        if npc is not None:
                            pc = npc
    if pc is st.pc or pc is None:
        return None
    verdict, assign = ses.model_pc(pc, st.extras, quick=True, raw=st.raw)
    return assign if verdict == 'sat' else None


def _scriptval(ex, assign, t):
    v = ex.store.evaluate(t, assign)
    if t.w == 0:
        return 1 if v else 0
    return sgn(v, t.w) if t.w == 64 else v


def _short(s, n=400):
    s = str(s)
    return s if len(s) <= n else s[:n] + '...(%d chars)' % len(s)


def _child(job, path):
    import pickle
    import resource
    try:
        lim = int(os.environ.get('VERIF_WORKER_MEM_GB', '6')) << 30
        resource.setrlimit(resource.RLIMIT_AS, (lim, lim))
    except Exception:
        pass
    try:
        res = _worker(job)
    except MemoryError:
        res = {'label': job.label, 'harness': job.harness, 'ok': False, 'candidates': [], 'samples': [], 'stats': {},
               'error': 'bound not completed: worker memory limit', 'inexact': 0, 'unsupported': [], 'wall_s': 0.0}
    with open(path, 'wb') as f:
        pickle.dump(res, f)


def _run_pool(jobs, nproc):
    """fork one process per job, at most nproc at a time; a worker that dies, exceeds its memory
    limit or its deadline yields an 'incomplete' result instead of hanging the check"""
    import pickle
    tmp = tempfile.mkdtemp(prefix='verif-jobs-')
    pending = list(enumerate(jobs))
    running = {}   # pid -> (index, job, path, start)
    results = [None] * len(jobs)
    try:
        while pending or running:
            while pending and len(running) < nproc:
                i, job = pending.pop(0)
                path = os.path.join(tmp, '%d.pkl' % i)
                pid = os.fork()
                if pid == 0:
                    code = 0
                    try:
                        _child(job, path)
                    except BaseException:
                        code = 1
                    os._exit(code)
                running[pid] = (i, job, path, time.time())
            done = []
            for pid, (i, job, path, start) in running.items():
                try:
                    rpid, status = os.waitpid(pid, os.WNOHANG)
                except ChildProcessError:
                    rpid, status = pid, 1
                hard = (job.timeout or _DEFAULT_TIMEOUT) + 120
                if rpid == 0 and time.time() - start > hard:
                    try:
                        os.kill(pid, 9)
                        os.waitpid(pid, 0)
                    except Exception:
                        pass
                    rpid, status = pid, -9
                if rpid != 0:
                    res = None
                    if os.path.exists(path):
                        try:
                            with open(path, 'rb') as f:
                                res = pickle.load(f)
                        except Exception:
                            res = None
                    if res is None:
                        res = {'label': job.label, 'harness': job.harness, 'ok': False, 'candidates': [], 'samples': [], 'stats': {},
                               'error': 'bound not completed: worker exited abnormally (status %s; memory limit or deadline)' % status,
                               'inexact': 0, 'unsupported': [], 'wall_s': time.time() - start}
                    results[i] = res
                    done.append(pid)
            for pid in done:
                del running[pid]
            if not done:
                time.sleep(0.05)
    finally:
        for pid in list(running):
            try:
                os.kill(pid, 9)
            except Exception:
                pass
        shutil.rmtree(tmp, ignore_errors=True)
    return results


class Check:
    """collects jobs, runs them on all cores, confirms candidates, writes evidence"""

    def __init__(self, pid, tier, level='model_checking'):
        self.pid = pid
        self.tier = tier
        self.level = level
        self.seed = int(os.environ.get('VERIF_SEED', '0') or 0)
        self.jobs = []
        self.assumptions = []
        self.outside = []
        self.bounds = {}
        self.t0 = time.time()
        self.extra_coverage = {}
        self.known, self.fixed = load_known_findings()
        self.violations = []
        self.known_hits = []
        self.unconfirmed = []
        self.results = []
        self.notes = []

    def add(self, job):
        self.jobs.append(job)

    # ------------------------------------------------------------------
    def run_jobs(self, nproc=None):
        global _PROG, _SEED
        global _PROG_SCALED
        work = tempfile.mkdtemp(prefix='verif-%s-' % self.pid)
        sds = sorted(set(j.opts.get('scale_depth') for j in self.jobs if j.opts.get('scale_depth')))
        if len(sds) > 1:
            raise ValueError('one depth scale per check')
        self.scale_depth = sds[0] if sds else None
        try:
            if self.scale_depth:
                _PROG, _PROG_SCALED = build_program(work, scale_depth=self.scale_depth)
                self.scaled_sites = sorted(set(_PROG_SCALED.scaled_sites))
            else:
                _PROG = build_program(work)
        finally:
            shutil.rmtree(work, ignore_errors=True)
        _SEED = self.seed
        if any(j.opts.get('monitor_alloc') for j in self.jobs):
            global _ESCAPES
            from gosym.driver import gc_escapes
            _ESCAPES = gc_escapes()
            self.escape_lines = sorted(x.replace(REPO + '/', '') for x in _ESCAPES)
        global _DEFAULT_TIMEOUT
        _DEFAULT_TIMEOUT = 420 if self.tier == 'quick' else 2400
        self.prog = _PROG
        nproc = nproc or min(16, os.cpu_count() or 4)
        jobs = sorted(self.jobs, key=lambda j: -j.weight)
        # cross-solver sampling on about 24 jobs spread over the check (engine/gosym/xcheck.py)
        if os.environ.get('VERIF_XCHECK', '1') != '0':
            step = max(1, len(jobs) // 24)
            for j in jobs[::step]:
                j.opts = dict(j.opts, xcheck=True)
        self.results = _run_pool(jobs, nproc)
        return self.results

    # ------------------------------------------------------------------
    def confirm(self):
        """native replay of every solver-confirmed candidate; classify."""
        cands = []
        for r in self.results:
            for c in r['candidates']:
                c['job'] = r['label']
                c['scale_depth'] = r.get('scale_depth')
                c['pkgdir'] = r.get('pkgdir', '.')
                if c['verdict'] == 'sat':
                    cands.append(c)
                elif c['verdict'] == 'unknown':
                    self.unconfirmed.append({'job': r['label'], 'what': c['what'], 'reason': 'solver unknown'})
        # dedupe by (kind, what, pos): replay up to 3 witnesses per site
        bysite = {}
        for c in cands:
            bysite.setdefault((c['kind'], c['what'], c['pos'], c['job'] if getattr(self, 'describe_job', False) else ''), []).append(c)
        todo = []
        for site, lst in bysite.items():
            lst.sort(key=lambda c: (len(c['call']), c['call']))
            # up to 48 witnesses per site, taken round-robin over the jobs that produced one (different
            # input lengths / templates / histories give different witnesses, and the ones the real build
            # reproduces need not come from the first jobs), at most 3 from any one job
            byjob = {}
            for c in lst:
                byjob.setdefault(c['job'], []).append(c)
            picked = []
            for rnd in range(3):
                for jb in sorted(byjob, key=lambda j: (len(byjob[j][0]['call']), j)):
                    if rnd < len(byjob[jb]) and len(picked) < 48:
                        picked.append(byjob[jb][rnd])
            for i, c in enumerate(picked):
                c['rname'] = 'c%d_%d' % (len(todo), i)
                todo.append(c)
        if not todo:
            return
        out = {}
        for sd, pk in sorted(set((c.get('scale_depth'), c.get('pkgdir', '.')) for c in todo), key=lambda x: (x[0] or 0, x[1])):
            grp = [c for c in todo if c.get('scale_depth') == sd and c.get('pkgdir', '.') == pk]
            cases = [(c['rname'], c['script'], c['call']) for c in grp]
            try:
                out.update(native_replay(cases, pkgdir=pk, scale_depth=sd))
            except Exception as e:
                for c in grp:
                    self.unconfirmed.append({'job': c['job'], 'what': c['what'], 'reason': 'replay could not run: %s' % e})
        for c in todo:
            verdict, detail = out.get(c['rname'], ('MISSING', ''))
            site = (c['kind'], c['what'], c['pos'])
            if verdict in ('FAIL', 'PANIC'):
                c['native'] = verdict + ' ' + detail
                self._report(c)
            else:
                self.unconfirmed.append({'job': c['job'], 'what': c['what'], 'call': c['call'],
                                         'reason': 'native replay says %s: encoder/model mismatch, not a violation' % verdict})

    def _report(self, c):
        desc = '%s %s %s' % (c['kind'], c['what'], c['pos'].replace(REPO + '/', ''))
        if getattr(self, 'describe_job', False):
            desc = '%s %s [%s]' % (c['kind'], c['what'], c.get('job', ''))
        if c.get('scale_depth'):
            desc += ' [nesting limit scaled 10000 -> %d in code and reference]' % c['scale_depth']
        for k in self.known:
            # known: property=<id> <substring that must occur in the description>
            parts = k.split(None, 1)
            if parts and parts[0] == 'property=%s' % self.pid and len(parts) > 1:
                pat = parts[1].split(' :: ')[0]
                if all(p.strip() in desc for p in pat.split(' && ')):
                    if k not in self.known_hits:
                        self.known_hits.append(k)
                    return
        h = hashlib.sha1((self.pid + c['call'] + str(c['script'])).encode()).hexdigest()[:10]
        path = os.path.join(VERIF, 'replays', '%s-%s.json' % (self.pid, h))
        os.makedirs(os.path.dirname(path), exist_ok=True)
        with open(path, 'w') as f:
            json.dump({'property': self.pid, 'what': desc, 'call': c['call'], 'script': c['script'], 'scale_depth': c.get('scale_depth'), 'pkgdir': c.get('pkgdir', '.'),
                       'inputs': c.get('inputs'), 'native': c.get('native'), 'job': c['job']}, f, indent=1)
        if not any(v['what'] == desc for v in self.violations):
            self.violations.append({'what': desc, 'replay': path, 'call': c['call'], 'native': c.get('native')})

    # ------------------------------------------------------------------
    def validate_samples(self, maxn=40):
        """translator validation: replay sample members of passing path classes natively;
        the engine predicts that no harness assertion fails on them."""
        cases = []
        for r in self.results:
            pass
        pool = [s for r in self.results if not r.get('candidates') for s in r.get('samples', [])]
        import random
        random.Random(self.seed).shuffle(pool)
        pool.sort(key=lambda s: -len(s['call']))
        pool = pool[:maxn]
        for s in pool:
            cases.append(('s%d' % len(cases), s['script'], s['call']))
        if True:
            if True:
                if False:
                    pass
        if not cases:
            return 0, 0
        out = {}
        try:
            for sd, pk in sorted(set((s.get('scale_depth'), s.get('pkgdir', '.')) for s in pool), key=lambda x: (x[0] or 0, x[1])):
                grp = [cs for cs, s in zip(cases, pool) if s.get('scale_depth') == sd and s.get('pkgdir', '.') == pk]
                out.update(native_replay(grp, pkgdir=pk, scale_depth=sd))
        except Exception as e:
            self.notes.append('sample replay could not run: %s' % e)
            self.replay_broken = True
            return 0, 0
        okc = sum(1 for n, _, _ in cases if out.get(n, ('', ''))[0] == 'PASS')
        jobof = {cs[0]: s.get('job', 'sample') for cs, s in zip(cases, pool)}
        for n, script, call in cases:
            v = out.get(n, ('MISSING', ''))
            if v[0] in ('FAIL', 'PANIC'):
                # the real build violates the harness assertion on this input although the
                # encoding predicted a pass: report it (ground truth), and flag the encoder -- provided it
                # reproduces: two more native runs of the same case must fail too (a measurement that depends on
                # GC timing or machine load is not an observation of the property failing)
                again = []
                smp = pool[[c_[0] for c_ in cases].index(n)]
                for _ in range(2):
                    try:
                        o2 = native_replay([(n, script, call)], pkgdir=smp.get('pkgdir', '.'), scale_depth=smp.get('scale_depth'))
                        again.append(o2.get(n, ('MISSING', ''))[0])
                    except Exception as e:
                        again.append('ERROR')
                if any(a not in ('FAIL', 'PANIC') for a in again):
                    self.notes.append('native failure did not reproduce (%s then %s): not reported, on %s' % (v, again, call[:200]))
                    continue
                self.notes.append('encoder predicted PASS but native %s on %s' % (v, call[:200]))
                self._report({'kind': 'assert', 'what': 'native-only ' + v[1], 'pos': '', 'call': call,
                              'script': script, 'job': jobof.get(n, 'sample'), 'native': v[0] + ' ' + v[1]})
            elif v[0] != 'PASS':
                self.notes.append('sample replay inconclusive (%s) on %s' % (v[0], call[:200]))
        return okc, len(cases)

    # ------------------------------------------------------------------
    def finish(self, extra=None):
        incomplete = [r for r in self.results if not r['ok']]
        unsupported = sorted(set(u for r in self.results for u in r.get('unsupported', [])))
        stats = {}
        solver = {'sat': 0, 'unsat': 0, 'unknown': 0, 'solver_s': 0.0}
        reach = {}
        asserts = {}
        funcs = set()
        for r in self.results:
            for k, v in r.get('stats', {}).items():
                stats[k] = stats.get(k, 0) + v
            for k, v in r.get('solver', {}).items():
                solver[k] = solver.get(k, 0) + v
            for k, v in r.get('reach', {}).items():
                reach[k] = reach.get(k, 0) + v
            for k, v in r.get('asserts', {}).items():
                a = asserts.setdefault(k, [0, 0])
                a[0] += v[0]
                a[1] += v[1]
            funcs.update(r.get('funcs', ()))
        xc = {'queries': 0, 'agree_cvc5': 0, 'agree_z3_4_8': 0, 'inconclusive_cvc5': 0, 'inconclusive_z3_4_8': 0, 'disagreements': []}
        for r in self.results:
            x = r.get('xcheck')
            if x:
                for k in xc:
                    xc[k] += x[k]
        # the in-process verdict stands unless BOTH independent solvers contradict it
        self.solver_conflict = [d for d in xc['disagreements'] if all(a is not None and a != d['z3_5'] for a in d['others'].values())]
        for d in xc['disagreements']:
            self.notes.append('cross-solver disagreement (%s back end): z3 5.x says %s, others %s' % (d['backend'], d['z3_5'], d['others']))
        vac = [k for k in getattr(self, 'must_reach', []) if not reach.get(k)]
        okc, nval = self.validate_samples() if not self.violations else (0, 0)
        from gosym.driver import run_refvalidate
        refval = run_refvalidate(full=(self.tier != 'quick')) if self.pid != 'C18' else {'ok': True, 'summary': 'not used'}
        if not refval['ok']:
            self.notes.append('REFERENCE VALIDATION FAILED (oracle disagrees with the standard library on this tree): ' + refval['summary'])
        self.sample_stats = (okc, nval)
        fenc = []
        for f in sorted(funcs):
            fn = self.prog.funcs.get(f)
            if fn is not None and not fn.extern:
                fenc.append({'name': f, 'ssa_instrs': fn.ninstr, 'hash': fn.hash})
        samples = []
        for r in self.results:
            for s in r.get('samples', [])[-2:]:
                samples.append({'job': r['label'][:200], 'mark': s.get('mark'), 'call': _short(s['call']), 'script': s['script'][:40], 'class_size': s.get('count')})
        cov = {
            'states': stats.get('states', 0) + stats.get('terminals', 0),
            'transitions': stats.get('blocks', 0),
            'traces_validated_against_impl': okc,
            'samples': samples[:25] or [{'note': 'no passing sample'}],
            'functions_encoded': fenc,
            'bounds': self.bounds,
            'reference_validation_vs_stdlib': refval,
            'depth_limit_scaling': ({'scaled_to': self.scale_depth, 'comparison_sites_rewritten': getattr(self, 'scaled_sites', [])} if getattr(self, 'scale_depth', None) else None),
            'jobs': [{'job': r['label'][:160], 'ok': r['ok'], 'error': _short(r['error'], 300) if r['error'] else None, 'wall_s': round(r['wall_s'], 2),
                      'path_classes': r.get('classes'), 'inputs_covered': str(r.get('inputs_covered')),
                      'input_space': str(r.get('input_space')), 'partition_complete': r.get('partition_complete')}
                     for r in self.results],
            'queries': {'sat': solver['sat'], 'unsat': solver['unsat'], 'unknown': solver['unknown'], 'of_which_integer_encoding': solver.get('lia_queries', 0)},
            'solver_s': round(solver['solver_s'], 3),
            'cross_solver_sample': {k: (v if k != 'disagreements' else v[:10]) for k, v in xc.items()},
            'ssa_instructions_executed': stats.get('instrs', 0),
            'state_merges': stats.get('merges', 0),
            'assertions': {k: {'path_classes_holding': v[0], 'candidates': v[1]} for k, v in sorted(asserts.items())},
            'reachability_witnesses': reach,
            'vacuous': vac,
            'unconfirmed': [{k: _short(v) for k, v in u.items()} for u in self.unconfirmed[:50]],
            'unsupported': unsupported,
            'incomplete_jobs': [r['label'] + ': ' + str(r['error']) for r in incomplete],
            'known_findings_hit': self.known_hits,
            'outside': self.outside,
            'notes': [_short(x, 600) for x in self.notes[:50]],
            'samples_replayed': nval,
        }
        if extra:
            cov.update(extra)
        cov.update(self.extra_coverage)
        wall = time.time() - self.t0
        write_evidence(self.pid, self.tier, self.seed, self.level, cov, self.assumptions, wall, len(self.violations))
        for k in self.known_hits:
            print('KNOWN-FINDING: %s' % k)
        for u in self.unconfirmed:
            print('note: unconfirmed candidate (not a violation): %s' % json.dumps(u)[:300])
        for r in incomplete:
            print('note: job did not complete its bound: %s: %s' % (r['label'], str(r['error']).splitlines()[0]))
        for u in unsupported:
            print('note: unsupported construct (path not covered): %s' % u)
        if vac:
            print('note: VACUOUS harness marks never reached: %s' % vac)
        for v in self.violations:
            print('VIOLATION property=%s replay=%s' % (self.pid, v['replay']))
            print('  %s :: %s :: native %s' % (v['what'], v['call'][:200], v['native']))
        print('%s %s: jobs=%d classes=%d states=%d queries=%d solver=%.1fs wall=%.1fs violations=%d' % (
            self.pid, self.tier, len(self.results), sum(r.get('classes') or 0 for r in self.results), cov['states'],
            cov['queries']['sat'] + cov['queries']['unsat'] + cov['queries']['unknown'], cov['solver_s'], wall, len(self.violations)))
        if self.violations:
            return 1
        if getattr(self, 'solver_conflict', None):
            print('tool error (no verdict): cvc5 and z3 4.8 both contradict the deciding solver on %d sampled queries' % len(self.solver_conflict))
            return 2
        if getattr(self, 'replay_broken', False):
            print('tool error (no verdict): the native replay could not be built/run: %s' % _short(self.notes[-1] if self.notes else '', 500))
            return 2
        return 0
