#!/bin/bash
# sweep.sh <tier> [ids...] -- run checks of one tier from the current directory's copy of /verif (used with `vp run`)
export VERIF_DIR=$PWD GOFLAGS=-mod=mod GOPROXY=off GOSUMDB=off GOTOOLCHAIN=local
[ -n "$VP_RUN_REPO" ] && export VERIF_REPO=$VP_RUN_REPO
tier=$1; shift
ids="$@"
[ -z "$ids" ] && ids="C01 C02 C03 C06 C09 C11 C13 C10 C12 C15 C16 C20 C05 C07 C08 C14 C17 C18 C19 C04"
mkdir -p bin
(cd engine/ssaexport && go build -o $VERIF_DIR/bin/ssaexport .) || exit 3
rc=0
for id in $ids; do
  echo "== $id"
  /usr/bin/time -f "elapsed %e s maxrss %M KB" python3-vt check.py $id --tier $tier 2>&1 | cut -c1-600
  s=${PIPESTATUS[0]}
  echo "exit $s"
  [ $s -ne 0 ] && rc=1
done
echo "SWEEP DONE rc=$rc"
exit $rc
