// ssaexport loads the rjson packages from /repo's current working tree (plus
// overlay harness files), builds go/ssa form and dumps every function of the
// allow-listed packages as JSON for the Python symbolic executor.
//
// usage: ssaexport -dir /repo -tags verif -overlay overlay.json -o out.json pkg...
package main

import (
	"crypto/sha256"
	"encoding/hex"
	"encoding/json"
	"flag"
	"fmt"
	"go/constant"
	"go/token"
	"go/types"
	"math"
	"os"
	"sort"
	"strings"

	"golang.org/x/tools/go/packages"
	"golang.org/x/tools/go/ssa"
	"golang.org/x/tools/go/ssa/ssautil"
)

type J = map[string]interface{}

var (
	typeIDs   = map[string]int{}
	typeList  []J
	typeCanon = map[types.Type]int{}
	fset      *token.FileSet
	allow     = map[string]bool{}
)

func typeID(t types.Type) int {
	if t == nil {
		return -1
	}
	if id, ok := typeCanon[t]; ok {
		return id
	}
	key := types.TypeString(t, nil)
	if id, ok := typeIDs[key]; ok {
		typeCanon[t] = id
		return id
	}
	id := len(typeList)
	typeIDs[key] = id
	typeCanon[t] = id
	typeList = append(typeList, nil)
	d := J{"id": id, "str": key}
	if n, ok := t.(*types.Named); ok {
		d["name"] = key
		_ = n
	}
	switch u := t.Underlying().(type) {
	case *types.Basic:
		info := u.Info()
		switch {
		case info&types.IsBoolean != 0:
			d["kind"] = "bool"
		case info&types.IsString != 0:
			d["kind"] = "string"
		case info&types.IsInteger != 0:
			d["kind"] = "int"
			bits := 64
			switch u.Kind() {
			case types.Int8, types.Uint8:
				bits = 8
			case types.Int16, types.Uint16:
				bits = 16
			case types.Int32, types.Uint32:
				bits = 32
			case types.UntypedRune:
				bits = 32
			}
			d["bits"] = bits
			d["signed"] = info&types.IsUnsigned == 0
		case info&types.IsFloat != 0:
			d["kind"] = "float"
			if u.Kind() == types.Float32 {
				d["bits"] = 32
			} else {
				d["bits"] = 64
			}
		case u.Kind() == types.UnsafePointer:
			d["kind"] = "unsafeptr"
		case u.Kind() == types.UntypedNil:
			d["kind"] = "nil"
		default:
			d["kind"] = "other"
		}
	case *types.Pointer:
		d["kind"] = "ptr"
		d["elem"] = typeID(u.Elem())
	case *types.Slice:
		d["kind"] = "slice"
		d["elem"] = typeID(u.Elem())
	case *types.Array:
		d["kind"] = "array"
		d["elem"] = typeID(u.Elem())
		d["len"] = u.Len()
	case *types.Struct:
		d["kind"] = "struct"
		var fs []J
		for i := 0; i < u.NumFields(); i++ {
			fs = append(fs, J{"name": u.Field(i).Name(), "type": typeID(u.Field(i).Type())})
		}
		d["fields"] = fs
	case *types.Interface:
		d["kind"] = "iface"
		d["nmethods"] = u.NumMethods()
	case *types.Map:
		d["kind"] = "map"
		d["key"] = typeID(u.Key())
		d["elem"] = typeID(u.Elem())
	case *types.Signature:
		d["kind"] = "func"
	case *types.Tuple:
		d["kind"] = "tuple"
		var es []int
		for i := 0; i < u.Len(); i++ {
			es = append(es, typeID(u.At(i).Type()))
		}
		d["elems"] = es
	case *types.Chan:
		d["kind"] = "chan"
	default:
		d["kind"] = "other"
	}
	typeList[id] = d
	return id
}

func pos(p token.Pos) string {
	if !p.IsValid() {
		return ""
	}
	pp := fset.Position(p)
	return fmt.Sprintf("%s:%d", pp.Filename, pp.Line)
}

func constVal(c *ssa.Const) J {
	d := J{"t": typeID(c.Type())}
	if c.Value == nil {
		d["c"] = nil
		d["ck"] = "zero"
		return d
	}
	switch c.Value.Kind() {
	case constant.Bool:
		d["ck"] = "bool"
		d["c"] = constant.BoolVal(c.Value)
	case constant.String:
		d["ck"] = "string"
		d["c"] = hex.EncodeToString([]byte(constant.StringVal(c.Value)))
	case constant.Int:
		d["ck"] = "int"
		d["c"] = c.Value.ExactString()
	case constant.Float:
		// typed float constants: value already representable in the type
		if b, ok := c.Type().Underlying().(*types.Basic); ok && b.Info()&types.IsInteger != 0 {
			d["ck"] = "int"
			d["c"] = constant.ToInt(c.Value).ExactString()
		} else {
			f, _ := constant.Float64Val(c.Value)
			d["ck"] = "float"
			d["c"] = fmt.Sprintf("%d", math.Float64bits(f))
			d["exact"] = c.Value.ExactString()
		}
	default:
		d["ck"] = "other"
		d["c"] = c.Value.ExactString()
	}
	return d
}

func operand(v ssa.Value) interface{} {
	if v == nil {
		return nil
	}
	switch x := v.(type) {
	case *ssa.Const:
		return constVal(x)
	case *ssa.Global:
		return J{"g": x.String(), "t": typeID(x.Type())}
	case *ssa.Function:
		return J{"fn": x.String()}
	case *ssa.Builtin:
		return J{"bi": x.Name()}
	default:
		return J{"v": v.Name()}
	}
}

func operands(vs []ssa.Value) []interface{} {
	out := make([]interface{}, len(vs))
	for i, v := range vs {
		out[i] = operand(v)
	}
	return out
}

func callCommon(c *ssa.CallCommon) J {
	d := J{"args": operands(c.Args)}
	if c.IsInvoke() {
		d["invoke"] = c.Method.Name()
		d["recv"] = operand(c.Value)
	} else {
		d["callee"] = operand(c.Value)
	}
	return d
}

func instrJSON(in ssa.Instruction) J {
	d := J{"pos": pos(in.Pos())}
	if v, ok := in.(ssa.Value); ok {
		d["name"] = v.Name()
		d["type"] = typeID(v.Type())
	}
	switch x := in.(type) {
	case *ssa.Alloc:
		d["op"] = "Alloc"
		d["heap"] = x.Heap
		d["elem"] = typeID(x.Type().Underlying().(*types.Pointer).Elem())
		d["comment"] = x.Comment
	case *ssa.BinOp:
		d["op"] = "BinOp"
		d["tok"] = x.Op.String()
		d["x"] = operand(x.X)
		d["y"] = operand(x.Y)
		d["xt"] = typeID(x.X.Type())
		d["yt"] = typeID(x.Y.Type())
	case *ssa.UnOp:
		d["op"] = "UnOp"
		d["tok"] = x.Op.String()
		d["x"] = operand(x.X)
		d["xt"] = typeID(x.X.Type())
		d["commaok"] = x.CommaOk
	case *ssa.Call:
		d["op"] = "Call"
		d["call"] = callCommon(&x.Call)
	case *ssa.Defer:
		d["op"] = "Defer"
		d["call"] = callCommon(&x.Call)
	case *ssa.Go:
		d["op"] = "Go"
		d["call"] = callCommon(&x.Call)
	case *ssa.ChangeInterface:
		d["op"] = "ChangeInterface"
		d["x"] = operand(x.X)
	case *ssa.ChangeType:
		d["op"] = "ChangeType"
		d["x"] = operand(x.X)
	case *ssa.Convert:
		d["op"] = "Convert"
		d["x"] = operand(x.X)
		d["xt"] = typeID(x.X.Type())
	case *ssa.MultiConvert:
		d["op"] = "Convert"
		d["x"] = operand(x.X)
		d["xt"] = typeID(x.X.Type())
	case *ssa.SliceToArrayPointer:
		d["op"] = "SliceToArrayPointer"
		d["x"] = operand(x.X)
	case *ssa.Extract:
		d["op"] = "Extract"
		d["x"] = operand(x.Tuple)
		d["index"] = x.Index
	case *ssa.Field:
		d["op"] = "Field"
		d["x"] = operand(x.X)
		d["field"] = x.Field
	case *ssa.FieldAddr:
		d["op"] = "FieldAddr"
		d["x"] = operand(x.X)
		d["field"] = x.Field
	case *ssa.Index:
		d["op"] = "Index"
		d["x"] = operand(x.X)
		d["index"] = operand(x.Index)
		d["xt"] = typeID(x.X.Type())
		d["it"] = typeID(x.Index.Type())
	case *ssa.IndexAddr:
		d["op"] = "IndexAddr"
		d["x"] = operand(x.X)
		d["index"] = operand(x.Index)
		d["xt"] = typeID(x.X.Type())
		d["it"] = typeID(x.Index.Type())
	case *ssa.If:
		d["op"] = "If"
		d["cond"] = operand(x.Cond)
	case *ssa.Jump:
		d["op"] = "Jump"
	case *ssa.Lookup:
		d["op"] = "Lookup"
		d["x"] = operand(x.X)
		d["index"] = operand(x.Index)
		d["commaok"] = x.CommaOk
		d["xt"] = typeID(x.X.Type())
	case *ssa.MakeChan:
		d["op"] = "MakeChan"
	case *ssa.MakeClosure:
		d["op"] = "MakeClosure"
		d["fn"] = operand(x.Fn)
		d["bindings"] = operands(x.Bindings)
	case *ssa.MakeInterface:
		d["op"] = "MakeInterface"
		d["x"] = operand(x.X)
		d["xt"] = typeID(x.X.Type())
	case *ssa.MakeMap:
		d["op"] = "MakeMap"
		d["reserve"] = operand(x.Reserve)
	case *ssa.MakeSlice:
		d["op"] = "MakeSlice"
		d["len"] = operand(x.Len)
		d["cap"] = operand(x.Cap)
	case *ssa.MapUpdate:
		d["op"] = "MapUpdate"
		d["map"] = operand(x.Map)
		d["key"] = operand(x.Key)
		d["value"] = operand(x.Value)
	case *ssa.Next:
		d["op"] = "Next"
		d["iter"] = operand(x.Iter)
		d["isstring"] = x.IsString
	case *ssa.Panic:
		d["op"] = "Panic"
		d["x"] = operand(x.X)
	case *ssa.Phi:
		d["op"] = "Phi"
		d["edges"] = operands(x.Edges)
		d["comment"] = x.Comment
	case *ssa.Range:
		d["op"] = "Range"
		d["x"] = operand(x.X)
		d["xt"] = typeID(x.X.Type())
	case *ssa.Return:
		d["op"] = "Return"
		d["results"] = operands(x.Results)
	case *ssa.RunDefers:
		d["op"] = "RunDefers"
	case *ssa.Select:
		d["op"] = "Select"
	case *ssa.Send:
		d["op"] = "Send"
	case *ssa.Slice:
		d["op"] = "Slice"
		d["x"] = operand(x.X)
		d["low"] = operand(x.Low)
		d["high"] = operand(x.High)
		d["max"] = operand(x.Max)
		d["xt"] = typeID(x.X.Type())
	case *ssa.Store:
		d["op"] = "Store"
		d["addr"] = operand(x.Addr)
		d["val"] = operand(x.Val)
	case *ssa.TypeAssert:
		d["op"] = "TypeAssert"
		d["x"] = operand(x.X)
		d["asserted"] = typeID(x.AssertedType)
		d["commaok"] = x.CommaOk
	case *ssa.DebugRef:
		return nil
	default:
		d["op"] = fmt.Sprintf("Unknown:%T", in)
	}
	return d
}

func funcJSON(fn *ssa.Function, srcHash map[string]string) J {
	d := J{"name": fn.String(), "pos": pos(fn.Pos())}
	if fn.Pkg != nil {
		d["pkg"] = fn.Pkg.Pkg.Path()
	}
	var ps []J
	for _, p := range fn.Params {
		ps = append(ps, J{"name": p.Name(), "type": typeID(p.Type())})
	}
	d["params"] = ps
	var fvs []J
	for _, p := range fn.FreeVars {
		fvs = append(fvs, J{"name": p.Name(), "type": typeID(p.Type())})
	}
	d["freevars"] = fvs
	var res []int
	rs := fn.Signature.Results()
	for i := 0; i < rs.Len(); i++ {
		res = append(res, typeID(rs.At(i).Type()))
	}
	d["results"] = res
	if fn.Blocks == nil {
		d["extern"] = true
		return d
	}
	ninstr := 0
	var blocks []J
	h := sha256.New()
	for _, b := range fn.Blocks {
		bd := J{"index": b.Index, "comment": b.Comment}
		var succs, preds []int
		for _, s := range b.Succs {
			succs = append(succs, s.Index)
		}
		for _, p := range b.Preds {
			preds = append(preds, p.Index)
		}
		bd["succs"] = succs
		bd["preds"] = preds
		var ins []J
		for _, in := range b.Instrs {
			ij := instrJSON(in)
			if ij != nil {
				ins = append(ins, ij)
				ninstr++
				fmt.Fprintf(h, "%s\n", in.String())
			}
		}
		bd["instrs"] = ins
		blocks = append(blocks, bd)
	}
	d["blocks"] = blocks
	d["ninstr"] = ninstr
	d["hash"] = hex.EncodeToString(h.Sum(nil))[:16]
	if fn.Recover != nil {
		d["recover"] = fn.Recover.Index
	}
	return d
}

func main() {
	dir := flag.String("dir", "/repo", "module directory")
	tags := flag.String("tags", "verif", "build tags")
	overlayFile := flag.String("overlay", "", "JSON file {virtual path: real path}")
	out := flag.String("o", "", "output file")
	allowPk := flag.String("allow", "unicode/utf8,unicode/utf16,math/bits,encoding/binary", "extra packages whose bodies are exported")
	flag.Parse()
	pkgs := flag.Args()
	if len(pkgs) == 0 {
		pkgs = []string{"github.com/willabides/rjson", "github.com/willabides/rjson/internal/fp"}
	}
	for _, p := range pkgs {
		allow[p] = true
	}
	for _, p := range strings.Split(*allowPk, ",") {
		if p != "" {
			allow[p] = true
		}
	}
	overlay := map[string][]byte{}
	if *overlayFile != "" {
		raw, err := os.ReadFile(*overlayFile)
		if err != nil {
			fatal(err)
		}
		var m map[string]string
		if err := json.Unmarshal(raw, &m); err != nil {
			fatal(err)
		}
		for virt, real := range m {
			b, err := os.ReadFile(real)
			if err != nil {
				fatal(err)
			}
			overlay[virt] = b
		}
	}
	cfg := &packages.Config{
		Mode:       packages.LoadAllSyntax,
		Dir:        *dir,
		Overlay:    overlay,
		BuildFlags: []string{"-tags=" + *tags},
		Env:        append(os.Environ(), "GOFLAGS=-mod=mod", "GOPROXY=off", "GOSUMDB=off", "GOTOOLCHAIN=local"),
	}
	fset = token.NewFileSet()
	cfg.Fset = fset
	initial, err := packages.Load(cfg, pkgs...)
	if err != nil {
		fatal(err)
	}
	nerr := 0
	packages.Visit(initial, nil, func(p *packages.Package) {
		for _, e := range p.Errors {
			fmt.Fprintln(os.Stderr, "load error:", e)
			nerr++
		}
	})
	if nerr > 0 {
		os.Exit(2)
	}
	prog, _ := ssautil.AllPackages(initial, 0)
	prog.Build()

	funcs := J{}
	methods := J{}
	globals := J{}
	seen := map[*ssa.Function]bool{}
	var work []*ssa.Function
	add := func(f *ssa.Function) {
		if f == nil || seen[f] {
			return
		}
		seen[f] = true
		work = append(work, f)
	}
	for _, pkg := range prog.AllPackages() {
		if !allow[pkg.Pkg.Path()] {
			continue
		}
		for _, m := range pkg.Members {
			switch x := m.(type) {
			case *ssa.Function:
				add(x)
			case *ssa.Global:
				globals[x.String()] = J{"type": typeID(x.Type().Underlying().(*types.Pointer).Elem())}
			case *ssa.Type:
				for _, T := range []types.Type{x.Type(), types.NewPointer(x.Type())} {
					ms := prog.MethodSets.MethodSet(T)
					mm := J{}
					for i := 0; i < ms.Len(); i++ {
						fn := prog.MethodValue(ms.At(i))
						if fn != nil {
							add(fn)
							mm[ms.At(i).Obj().Name()] = fn.String()
						}
					}
					if len(mm) > 0 {
						methods[types.TypeString(T, nil)] = mm
					}
				}
			}
		}
		add(pkg.Func("init"))
	}
	for len(work) > 0 {
		fn := work[len(work)-1]
		work = work[:len(work)-1]
		inAllow := fn.Pkg != nil && allow[fn.Pkg.Pkg.Path()]
		if fn.Pkg == nil && fn.Parent() != nil {
			inAllow = true
		}
		if fn.Pkg == nil && fn.Origin() != nil && fn.Origin().Pkg != nil {
			inAllow = allow[fn.Origin().Pkg.Pkg.Path()]
		}
		if fn.Synthetic != "" && fn.Pkg == nil {
			// wrappers / thunks / bound methods: export bodies
			inAllow = true
		}
		if !inAllow {
			funcs[fn.String()] = J{"name": fn.String(), "extern": true}
			continue
		}
		funcs[fn.String()] = funcJSON(fn, nil)
		for _, af := range fn.AnonFuncs {
			add(af)
		}
		for _, b := range fn.Blocks {
			for _, in := range b.Instrs {
				for _, op := range in.Operands(nil) {
					if f, ok := (*op).(*ssa.Function); ok {
						add(f)
					}
					if g, ok := (*op).(*ssa.Global); ok {
						if _, have := globals[g.String()]; !have {
							globals[g.String()] = J{"type": typeID(g.Type().Underlying().(*types.Pointer).Elem()), "foreign": !(g.Pkg != nil && allow[g.Pkg.Pkg.Path()])}
						}
					}
				}
			}
		}
	}
	// init order of allow-listed packages (dependencies first)
	var initOrder []string
	visited := map[*packages.Package]bool{}
	var visit func(p *packages.Package)
	visit = func(p *packages.Package) {
		if visited[p] {
			return
		}
		visited[p] = true
		var keys []string
		for k := range p.Imports {
			keys = append(keys, k)
		}
		sort.Strings(keys)
		for _, k := range keys {
			visit(p.Imports[k])
		}
		if allow[p.PkgPath] {
			initOrder = append(initOrder, p.PkgPath+".init")
		}
	}
	for _, p := range initial {
		visit(p)
	}
	res := J{"types": typeList, "funcs": funcs, "methods": methods, "globals": globals, "initorder": initOrder}
	// typeList may have grown while emitting; re-assign
	res["types"] = typeList
	enc, err := json.Marshal(res)
	if err != nil {
		fatal(err)
	}
	if *out == "" {
		os.Stdout.Write(enc)
	} else if err := os.WriteFile(*out, enc, 0o644); err != nil {
		fatal(err)
	}
}

func fatal(err error) {
	fmt.Fprintln(os.Stderr, "ssaexport:", err)
	os.Exit(2)
}
