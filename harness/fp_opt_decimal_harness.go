//go:build verif

package fp

// Harnesses that name the multi-precision fallback's internals (type decimal, leftShift,
// rightShift). Optional: if the tree no longer has them this file is left out of the overlay
// and the corresponding jobs report 'harness not present' instead of breaking every check.

// ---- C04 tier 5: the multi-precision fallback on its own ------------------------
func vH_FP_slow(data []byte) {
	var d decimal
	if !d.set(data) {
		return
	}
	vReach("C04.slow-set")
	b, ovf := d.floatBits()
	vReach("C04.slow-returned")
	vAssert(ovf == vGlueOverflows(data), "C04.slow-overflow-flag")
	if !ovf {
		vAssertGlueValue(data, b, "C04.slow-value")
	}
}

// ---- C04 tier 5a: the decimal shift units on their own ------------------------------
// A normalised decimal with nd symbolic digits (first and last digit non-zero) and concrete
// decimal point is shifted by a concrete k; the result must denote value*2^(+-k) exactly, be
// normalised again, and must not claim truncation.
func vMakeDecimal(a *decimal, nd int, dp int) {
	for i := 0; i < nd; i++ {
		c := vNondetByte("digit")
		vAssume(c >= '0' && c <= '9')
		a.d[i] = c
	}
	vAssume(a.d[0] != '0' && a.d[nd-1] != '0')
	a.nd = nd
	a.dp = dp
}

func vH_FP_shift(nd int, dp int, k int, left bool) {
	var a, before decimal
	vMakeDecimal(&a, nd, dp)
	before = a
	if left {
		leftShift(&a, uint(k))
	} else {
		rightShift(&a, uint(k))
	}
	vReach("C04.shift-done")
	vAssertShift(&before, &a, k, left, "C04.shift-exact")
}

// ---- C04 tier 5c: decimal.set on its own -----------------------------------------------
// data is a grammatical number literal (template); set must accept it and leave a decimal that
// denotes it: digits*10^(dp-nd) = |v| exactly, or - with trunc - |v| strictly inside the last digit's
// bracket; sign kept; no leading zero digit.
func vH_FP_set(data []byte) {
	var d decimal
	ok := d.set(data)
	vReach("C04.set-returned")
	vAssert(ok, "C04.set-accepts")
	if ok {
		vAssertSetValue(data, &d, "C04.set-value")
	}
}

// ---- C04 tier 5d: RoundedInteger (with shouldRoundUp) on its own ------------------------------
// A normalised decimal with nd symbolic digits, concrete decimal point and truncation flag: the result
// is the integer nearest to the value with ties to even; with trunc the true value lies strictly
// above the recorded one (inside the last digit's bracket) and every value there must round to it.
func vH_FP_round(nd int, dp int, trunc bool) {
	if trunc && dp >= nd {
		// a truncated decimal whose last kept digit is worth 1 or more does not determine its integer
		// rounding; floatBits only rounds decimals with up to 20 integer digits out of 800 kept
		return
	}
	var a decimal
	vMakeDecimal(&a, nd, dp)
	a.trunc = trunc
	before := a
	n := a.RoundedInteger()
	vReach("C04.round-done")
	vAssertRoundedInt(&before, n, "C04.round-nearest-even")
}

// ---- C04 tier 5e: floatBits over an abstract decimal ---------------------------------------------
// In the engine vAbsDecimal builds a decimal that denotes the literal exactly and whose Shift and
// RoundedInteger follow their contracts (engine/gosym/absdec.py); natively it is decimal.set, so a replay
// runs the real fallback.
func vH_FP_absbits(data []byte) {
	var d decimal
	vAbsDecimal(&d, data)
	b, ovf := d.floatBits()
	vReach("C04.absbits-returned")
	vAssert(ovf == vGlueOverflows(data), "C04.absbits-overflow-flag")
	if !ovf {
		vReach("C04.absbits-finite")
		vAssertGlueValue(data, b, "C04.absbits-value")
	}
}

// ---- C04 tier 5f: the digit buffer holds every exact halfway point --------------------------------
// man*2^e2 and (man+1)*2^e2 are neighbouring binary64 values of one binade (e2 = -1074 covers the
// subnormals and the first normal binade); their midpoint (2*man+1)*2^(e2-1) is a finite decimal. If
// its digits did not fit the buffer, decimal.set would drop some and the literal would no longer look
// like a tie: it is then rounded down whatever the parity (wrong for odd man). In the engine the
// obligation is over every man (integer arithmetic; a witness with odd man is preferred); natively the
// midpoint's literal is parsed through the public entry point and must give the even neighbour.
func vH_FP_halfway(e2 int) {
	man := vNondetUint64("man")
	vAssume(man < 1<<53-1)
	if e2 > -1074 {
		vAssume(man >= 1<<52)
	}
	var d decimal
	vReach("C04.halfway-posed")
	vAssertHalfwayFits(len(d.d), man, e2, "C04.buffer-holds-every-halfway")
}

// ---- C04 tier 1b / 5c-b: the exponent part, for every exponent digit string --------------------------
// data is a literal with a concrete mantissa and free exponent digits. Both places that accumulate a
// decimal exponent (the scanner and decimal.set) must report mantissa offset + exponent exactly, or -
// where they stop accumulating - a value that lies beyond the consumer's range on the same side as the
// true one (Eisel-Lemire's table for the scanner, floatBits' overflow / underflow exits for set).
func vH_FP_expo(data []byte) {
	mant, exp, neg, trunc, p, ok := readFloat(data)
	vReach("C04.expo-scanned")
	vAssert(ok && p == len(data), "C04.expo-scan-accepts")
	if ok && p == len(data) {
		vAssertScanExpo(data, mant, exp, neg, trunc, "C04.expo-scan-value")
	}
	var d decimal
	sok := d.set(data)
	vAssert(sok, "C04.expo-set-accepts")
	if sok {
		vAssertSetExpo(data, &d, "C04.expo-set-value")
	}
}
