//go:build verif

package rjson

// Reference models (oracles) written directly from RFC 8259 / RFC 3629. They
// share no code with the library, use only byte comparisons and small integer
// arithmetic so that the symbolic executor can run them on the same symbolic
// bytes as the implementation, and are validated natively against
// encoding/json, strconv and unicode/utf8 (see zz_verif_refvalidate_test.go).

const vRefMaxDepth = 10000

func vIsWS(b byte) bool    { return b == ' ' || b == '\t' || b == '\n' || b == '\r' }
func vIsDigit(b byte) bool { return b >= '0' && b <= '9' }
func vIsHex(b byte) bool {
	return (b >= '0' && b <= '9') || (b >= 'a' && b <= 'f') || (b >= 'A' && b <= 'F')
}

func vSkipWS(data []byte, p int) int {
	for p < len(data) && vIsWS(data[p]) {
		p++
	}
	return p
}

// vRefLiteral: data[p:] begins with lit.
func vRefLiteral(data []byte, p int, lit string) bool {
	if len(data)-p < len(lit) {
		return false
	}
	for i := 0; i < len(lit); i++ {
		if data[p+i] != lit[i] {
			return false
		}
	}
	return true
}

// vRefStringEnd: data[p] == '"'; returns the index after the closing quote of a
// well-formed JSON string token.
func vRefStringEnd(data []byte, p int) (int, bool) {
	p++
	for p < len(data) {
		c := data[p]
		if c == '"' {
			return p + 1, true
		}
		if c < 0x20 {
			return 0, false
		}
		if c == '\\' {
			p++
			if p >= len(data) {
				return 0, false
			}
			e := data[p]
			if e == 'u' {
				if len(data)-p < 5 {
					return 0, false
				}
				if !vIsHex(data[p+1]) || !vIsHex(data[p+2]) || !vIsHex(data[p+3]) || !vIsHex(data[p+4]) {
					return 0, false
				}
				p += 5
				continue
			}
			if e == '"' || e == '\\' || e == '/' || e == 'b' || e == 'f' || e == 'n' || e == 'r' || e == 't' {
				p++
				continue
			}
			return 0, false
		}
		p++
	}
	return 0, false
}

// vRefNumberEnd: maximal-munch JSON number starting at p (data[p] is '-' or a
// digit). A number whose fraction or exponent is started but not completed is
// an error, exactly as in a one-pass scanner.
func vRefNumberEnd(data []byte, p int) (int, bool) {
	n := len(data)
	if p < n && data[p] == '-' {
		p++
	}
	if p >= n {
		return 0, false
	}
	if data[p] == '0' {
		p++
	} else if data[p] >= '1' && data[p] <= '9' {
		p++
		for p < n && vIsDigit(data[p]) {
			p++
		}
	} else {
		return 0, false
	}
	if p < n && data[p] == '.' {
		p++
		if p >= n || !vIsDigit(data[p]) {
			return 0, false
		}
		for p < n && vIsDigit(data[p]) {
			p++
		}
	}
	if p < n && (data[p] == 'e' || data[p] == 'E') {
		p++
		if p < n && (data[p] == '+' || data[p] == '-') {
			p++
		}
		if p >= n || !vIsDigit(data[p]) {
			return 0, false
		}
		for p < n && vIsDigit(data[p]) {
			p++
		}
	}
	return p, true
}

// vRefValueEnd: index just after the JSON value starting at p (no leading
// whitespace); depth = number of containers already open.
func vRefValueEnd(data []byte, p int, depth int) (int, bool) {
	if p >= len(data) {
		return 0, false
	}
	c := data[p]
	switch {
	case c == '"':
		return vRefStringEnd(data, p)
	case c == '-' || vIsDigit(c):
		return vRefNumberEnd(data, p)
	case c == 't':
		if vRefLiteral(data, p, "true") {
			return p + 4, true
		}
		return 0, false
	case c == 'f':
		if vRefLiteral(data, p, "false") {
			return p + 5, true
		}
		return 0, false
	case c == 'n':
		if vRefLiteral(data, p, "null") {
			return p + 4, true
		}
		return 0, false
	case c == '[':
		if depth >= vRefMaxDepth {
			return 0, false
		}
		p = vSkipWS(data, p+1)
		if p < len(data) && data[p] == ']' {
			return p + 1, true
		}
		for {
			var ok bool
			p, ok = vRefValueEnd(data, p, depth+1)
			if !ok {
				return 0, false
			}
			p = vSkipWS(data, p)
			if p >= len(data) {
				return 0, false
			}
			if data[p] == ']' {
				return p + 1, true
			}
			if data[p] != ',' {
				return 0, false
			}
			p = vSkipWS(data, p+1)
		}
	case c == '{':
		if depth >= vRefMaxDepth {
			return 0, false
		}
		p = vSkipWS(data, p+1)
		if p < len(data) && data[p] == '}' {
			return p + 1, true
		}
		for {
			if p >= len(data) || data[p] != '"' {
				return 0, false
			}
			var ok bool
			p, ok = vRefStringEnd(data, p)
			if !ok {
				return 0, false
			}
			p = vSkipWS(data, p)
			if p >= len(data) || data[p] != ':' {
				return 0, false
			}
			p = vSkipWS(data, p+1)
			p, ok = vRefValueEnd(data, p, depth+1)
			if !ok {
				return 0, false
			}
			p = vSkipWS(data, p)
			if p >= len(data) {
				return 0, false
			}
			if data[p] == '}' {
				return p + 1, true
			}
			if data[p] != ',' {
				return 0, false
			}
			p = vSkipWS(data, p+1)
		}
	}
	return 0, false
}

// vRefValueEndDeep: the same grammar without any nesting limit (used to recognise inputs that
// are only rejected for their depth, which some properties leave open). index just after the JSON value starting at p (no leading
// whitespace); depth = number of containers already open.
func vRefValueEndDeep(data []byte, p int, depth int) (int, bool) {
	if p >= len(data) {
		return 0, false
	}
	c := data[p]
	switch {
	case c == '"':
		return vRefStringEnd(data, p)
	case c == '-' || vIsDigit(c):
		return vRefNumberEnd(data, p)
	case c == 't':
		if vRefLiteral(data, p, "true") {
			return p + 4, true
		}
		return 0, false
	case c == 'f':
		if vRefLiteral(data, p, "false") {
			return p + 5, true
		}
		return 0, false
	case c == 'n':
		if vRefLiteral(data, p, "null") {
			return p + 4, true
		}
		return 0, false
	case c == '[':
		p = vSkipWS(data, p+1)
		if p < len(data) && data[p] == ']' {
			return p + 1, true
		}
		for {
			var ok bool
			p, ok = vRefValueEndDeep(data, p, depth+1)
			if !ok {
				return 0, false
			}
			p = vSkipWS(data, p)
			if p >= len(data) {
				return 0, false
			}
			if data[p] == ']' {
				return p + 1, true
			}
			if data[p] != ',' {
				return 0, false
			}
			p = vSkipWS(data, p+1)
		}
	case c == '{':
		p = vSkipWS(data, p+1)
		if p < len(data) && data[p] == '}' {
			return p + 1, true
		}
		for {
			if p >= len(data) || data[p] != '"' {
				return 0, false
			}
			var ok bool
			p, ok = vRefStringEnd(data, p)
			if !ok {
				return 0, false
			}
			p = vSkipWS(data, p)
			if p >= len(data) || data[p] != ':' {
				return 0, false
			}
			p = vSkipWS(data, p+1)
			p, ok = vRefValueEndDeep(data, p, depth+1)
			if !ok {
				return 0, false
			}
			p = vSkipWS(data, p)
			if p >= len(data) {
				return 0, false
			}
			if data[p] == '}' {
				return p + 1, true
			}
			if data[p] != ',' {
				return 0, false
			}
			p = vSkipWS(data, p+1)
		}
	}
	return 0, false
}

func vRefSkipDeep(data []byte) (int, bool) {
	return vRefValueEndDeep(data, vSkipWS(data, 0), 0)
}

// vRefSkip: optional whitespace then one value; end offset of that value.
func vRefSkip(data []byte) (int, bool) {
	return vRefValueEnd(data, vSkipWS(data, 0), 0)
}

// vRefValid: exactly one value surrounded by optional whitespace.
func vRefValid(data []byte) bool {
	end, ok := vRefSkip(data)
	if !ok {
		return false
	}
	return vSkipWS(data, end) == len(data)
}

// vRefTokenType: the fixed JSON token table.
func vRefTokenType(b byte) TokenType {
	switch {
	case b == 'n':
		return NullType
	case b == '"':
		return StringType
	case b == 't':
		return TrueType
	case b == 'f':
		return FalseType
	case b == '{':
		return ObjectStartType
	case b == '}':
		return ObjectEndType
	case b == '[':
		return ArrayStartType
	case b == ']':
		return ArrayEndType
	case b == ',':
		return CommaType
	case b == ':':
		return ColonType
	case b == '-' || (b >= '0' && b <= '9'):
		return NumberType
	}
	return InvalidType
}

func vHexVal(b byte) int {
	switch {
	case b >= '0' && b <= '9':
		return int(b - '0')
	case b >= 'a' && b <= 'f':
		return int(b-'a') + 10
	}
	return int(b-'A') + 10
}

// vRefEncodeUTF8 appends the UTF-8 encoding of code point r (0..0x10FFFF, not a
// surrogate) to dst. Written from RFC 3629 section 3.
func vRefEncodeUTF8(dst []byte, r int) []byte {
	switch {
	case r < 0x80:
		return append(dst, byte(r))
	case r < 0x800:
		return append(dst, byte(0xC0|r>>6), byte(0x80|r&0x3F))
	case r < 0x10000:
		return append(dst, byte(0xE0|r>>12), byte(0x80|(r>>6)&0x3F), byte(0x80|r&0x3F))
	}
	return append(dst, byte(0xF0|r>>18), byte(0x80|(r>>12)&0x3F), byte(0x80|(r>>6)&0x3F), byte(0x80|r&0x3F))
}

// vRefUnescape decodes the content (between the quotes) of a well-formed JSON
// string token: escapes resolved, surrogate pairs combined, lone surrogates
// replaced by U+FFFD, every other byte copied verbatim.
func vRefUnescape(content []byte, dst []byte) []byte {
	p := 0
	n := len(content)
	for p < n {
		c := content[p]
		if c != '\\' {
			dst = append(dst, c)
			p++
			continue
		}
		e := content[p+1]
		switch e {
		case '"', '\\', '/':
			dst = append(dst, e)
			p += 2
		case 'b':
			dst = append(dst, 8)
			p += 2
		case 'f':
			dst = append(dst, 12)
			p += 2
		case 'n':
			dst = append(dst, 10)
			p += 2
		case 'r':
			dst = append(dst, 13)
			p += 2
		case 't':
			dst = append(dst, 9)
			p += 2
		default: // 'u'
			u := vHexVal(content[p+2])<<12 | vHexVal(content[p+3])<<8 | vHexVal(content[p+4])<<4 | vHexVal(content[p+5])
			p += 6
			if u >= 0xD800 && u < 0xDC00 {
				// high surrogate: needs \uDC00..\uDFFF right behind it
				if n-p >= 6 && content[p] == '\\' && content[p+1] == 'u' &&
					vIsHex(content[p+2]) && vIsHex(content[p+3]) && vIsHex(content[p+4]) && vIsHex(content[p+5]) {
					u2 := vHexVal(content[p+2])<<12 | vHexVal(content[p+3])<<8 | vHexVal(content[p+4])<<4 | vHexVal(content[p+5])
					if u2 >= 0xDC00 && u2 < 0xE000 {
						p += 6
						dst = vRefEncodeUTF8(dst, 0x10000+((u-0xD800)<<10|(u2-0xDC00)))
						continue
					}
				}
				dst = append(dst, 0xEF, 0xBF, 0xBD)
			} else if u >= 0xDC00 && u < 0xE000 {
				dst = append(dst, 0xEF, 0xBF, 0xBD)
			} else {
				dst = vRefEncodeUTF8(dst, u)
			}
		}
	}
	return dst
}

// vRefReadString: whitespace, then a well-formed string token; decoded content
// appended to dst, end offset after the closing quote.
func vRefReadString(data []byte, dst []byte) ([]byte, int, bool) {
	p := vSkipWS(data, 0)
	if p >= len(data) || data[p] != '"' {
		return dst, 0, false
	}
	end, ok := vRefStringEnd(data, p)
	if !ok {
		return dst, 0, false
	}
	return vRefUnescape(data[p+1:end-1], dst), end, true
}

// vRefUTF8Len: length (1..4) of the well-formed UTF-8 sequence at the start of
// s per RFC 3629 / Unicode table 3-7, or 0 if s does not start with one.
func vRefUTF8Len(s []byte) int {
	n := len(s)
	if n == 0 {
		return 0
	}
	b0 := s[0]
	if b0 < 0x80 {
		return 1
	}
	if b0 >= 0xC2 && b0 <= 0xDF {
		if n >= 2 && s[1] >= 0x80 && s[1] <= 0xBF {
			return 2
		}
		return 0
	}
	if b0 >= 0xE0 && b0 <= 0xEF {
		if n < 3 {
			return 0
		}
		lo, hi := byte(0x80), byte(0xBF)
		if b0 == 0xE0 {
			lo = 0xA0
		} else if b0 == 0xED {
			hi = 0x9F
		}
		if s[1] >= lo && s[1] <= hi && s[2] >= 0x80 && s[2] <= 0xBF {
			return 3
		}
		return 0
	}
	if b0 >= 0xF0 && b0 <= 0xF4 {
		if n < 4 {
			return 0
		}
		lo, hi := byte(0x80), byte(0xBF)
		if b0 == 0xF0 {
			lo = 0x90
		} else if b0 == 0xF4 {
			hi = 0x8F
		}
		if s[1] >= lo && s[1] <= hi && s[2] >= 0x80 && s[2] <= 0xBF && s[3] >= 0x80 && s[3] <= 0xBF {
			return 4
		}
		return 0
	}
	return 0
}

// vRefSanitizeUTF8: every byte that does not begin a well-formed sequence is
// replaced by U+FFFD, everything else copied.
func vRefSanitizeUTF8(s []byte, dst []byte) []byte {
	p := 0
	for p < len(s) {
		l := vRefUTF8Len(s[p:])
		if l == 0 {
			dst = append(dst, 0xEF, 0xBF, 0xBD)
			p++
			continue
		}
		dst = append(dst, s[p:p+l]...)
		p += l
	}
	return dst
}

// vRefIntLiteral: after whitespace, an optional '-' (if allowNeg) and a JSON
// integer literal with no fraction/exponent behind it. Returns the digit
// range.  ok is false for anything that is not such a literal.
func vRefIntLiteral(data []byte, allowNeg bool) (neg bool, ds, de int, ok bool) {
	p := vSkipWS(data, 0)
	n := len(data)
	if p < n && data[p] == '-' {
		if !allowNeg {
			return false, 0, 0, false
		}
		neg = true
		p++
	}
	ds = p
	if p >= n || !vIsDigit(data[p]) {
		return false, 0, 0, false
	}
	if data[p] == '0' {
		p++
	} else {
		for p < n && vIsDigit(data[p]) {
			p++
		}
	}
	de = p
	if p < n && (data[p] == '.' || data[p] == 'e' || data[p] == 'E') {
		return false, 0, 0, false
	}
	return neg, ds, de, true
}

// vRefDigitsLE: the decimal digit string data[ds:de] (no leading zeros unless
// it is "0") denotes a value <= the value of the decimal string bound.
func vRefDigitsLE(data []byte, ds, de int, bound string) bool {
	l := de - ds
	if l != len(bound) {
		return l < len(bound)
	}
	for i := 0; i < l; i++ {
		if data[ds+i] != bound[i] {
			return data[ds+i] < bound[i]
		}
	}
	return true
}

// vRefDigitsValue: value of the digit string, to be called only when it is
// known to fit uint64.
func vRefDigitsValue(data []byte, ds, de int) uint64 {
	var v uint64
	for i := ds; i < de; i++ {
		v = v*10 + uint64(data[i]-'0')
	}
	return v
}
