//go:build verif

package fp

import "math"

// ---- C04 tier 3: Eisel-Lemire, one table row, one leading-zero count ---------
// exp10 and clz are concrete per run; the mantissa ranges over every 64-bit value
// with exactly clz leading zeros.
func vH_EL(exp10 int, clz int, neg bool) {
	lo := uint64(1) << uint(63-clz)
	man := lo + vNondetUint64("man")%lo
	f, ok := eiselLemire64(man, exp10, neg)
	vReach("C04.el-returned")
	if ok {
		vReach("C04.el-ok")
		vAssertRounded(man, exp10, neg, math.Float64bits(f), "C04.el-rounded")
	}
}

// ---- C04 tier 1: the literal scanner ---------------------------------------
func vfIsDigit(b byte) bool { return b >= '0' && b <= '9' }

// vfRefNumberEnd: maximal-munch JSON number at the start of data (RFC 8259 number
// grammar; a started but incomplete fraction/exponent is an error).
func vfRefNumberEnd(data []byte) (int, bool) {
	n := len(data)
	p := 0
	if p < n && data[p] == '-' {
		p++
	}
	if p >= n {
		return 0, false
	}
	if data[p] == '0' {
		p++
	} else if data[p] >= '1' && data[p] <= '9' {
		for p < n && vfIsDigit(data[p]) {
			p++
		}
	} else {
		return 0, false
	}
	if p < n && data[p] == '.' {
		p++
		if p >= n || !vfIsDigit(data[p]) {
			return 0, false
		}
		for p < n && vfIsDigit(data[p]) {
			p++
		}
	}
	if p < n && (data[p] == 'e' || data[p] == 'E') {
		p++
		if p < n && (data[p] == '+' || data[p] == '-') {
			p++
		}
		if p >= n || !vfIsDigit(data[p]) {
			return 0, false
		}
		for p < n && vfIsDigit(data[p]) {
			p++
		}
	}
	return p, true
}

// vfRefDecompose: for a well-formed literal data[:end]: sign, the value of its first
// (at most 19) mantissa digits, how many digits that is, the number of integer digits,
// whether a later digit was dropped, and the exponent part (saturating at 10000).
func vfRefDecompose(data []byte, end int) (neg bool, mant uint64, nmant int, intDigits int, dropped bool, e int, eneg bool) {
	p := 0
	if data[0] == '-' {
		neg = true
		p = 1
	}
	seenDot := false
	for p < end && data[p] != 'e' && data[p] != 'E' {
		c := data[p]
		if c == '.' {
			seenDot = true
		} else {
			if nmant < 19 {
				mant = mant*10 + uint64(c-'0')
				nmant++
			} else {
				dropped = true
			}
			if !seenDot {
				intDigits++
			}
		}
		p++
	}
	if p < end {
		p++
		if data[p] == '+' {
			p++
		} else if data[p] == '-' {
			eneg = true
			p++
		}
		for p < end {
			if e < 10000 {
				e = e*10 + int(data[p]-'0')
			}
			p++
		}
	}
	return
}

func vH_FP_scan(data []byte) {
	mant, exp, neg, trunc, p, ok := readFloat(data)
	end, rok := vfRefNumberEnd(data)
	// ParseJSONFloatPrefix additionally rejects a literal ending in '.'
	accepted := ok && !(p > 0 && data[p-1] == '.')
	vReach("C04.scan-returned")
	vAssert(accepted == rok, "C04.scan-accepts")
	if !(accepted && rok) {
		return
	}
	vReach("C04.scan-ok")
	vAssert(p == end, "C04.scan-length")
	// the interface between the scanner and the conversion tiers, stated on values: the
	// (mantissa, exponent, truncated) triple denotes the literal exactly, or brackets it from
	// below when digits were dropped (decided in integer arithmetic by the executor)
	vAssertScanValue(data[:end], mant, exp, neg, trunc, "C04.scan-value")
}

// ---- C04 tier 2: the exact floating-point path ------------------------------
func vH_FP_exact(exp10 int, neg bool) {
	man := vNondetUint64("man")
	f, ok := atof64exact(man, exp10, neg)
	vReach("C04.exact-returned")
	if ok {
		vReach("C04.exact-ok")
		vAssertRounded(man, exp10, neg, math.Float64bits(f), "C04.exact-rounded")
	}
}

// ---- C04 tier 4: the glue of ParseJSONFloatPrefix -----------------------------
func vH_FP_glue(data []byte) {
	f, n, err := ParseJSONFloatPrefix(data)
	end, ok := vfRefNumberEnd(data)
	vReach("C04.glue-returned")
	if !ok {
		vAssert(err != nil, "C04.glue-rejects")
		return
	}
	vAssert(err == nil || err == errRange, "C04.glue-accepts")
	if err == nil {
		vReach("C04.glue-ok")
		vAssert(n == end, "C04.glue-length")
		vAssertGlueValue(data[:end], math.Float64bits(f), "C04.glue-value")
	} else if err == errRange {
		vAssert(vGlueOverflows(data[:end]), "C04.glue-range-error-only-on-overflow")
	}
}

