"""Loads the JSON written by ssaexport and pre-processes it for the executor:
operands resolved to small tuples, phi tables, liveness, reverse post-order."""
import json

from .terms import mask

NILSLICE = ('S', None, (), 0, 0, 0)
EMPTYSTR = ('Z', ())

# operand kinds
K_CONST, K_VAR, K_GLOBAL, K_FUNC, K_BUILTIN = 0, 1, 2, 3, 4


class Func:
    __slots__ = ('name', 'pkg', 'params', 'freevars', 'results', 'blocks', 'extern', 'ninstr', 'hash', 'pos', 'short', 'nreturns')


class Block:
    __slots__ = ('index', 'instrs', 'succs', 'preds', 'phis', 'predpos', 'livein', 'rpo', 'ismerge', 'comment', 'fn')


class Program:
    def __init__(self, path, scale=None):
        """scale = (function-name regex, old constant, new constant): every integer constant
        operand equal to `old` of a comparison in the matching functions is replaced by `new`
        (used to bring the 10,000 nesting limit within reach of bounded runs)"""
        import re
        self.scale = (re.compile(scale[0]), scale[1], scale[2]) if scale else None
        self.scaled_sites = []
        self._curfn = ''
        with open(path) as f:
            d = json.load(f)
        self.types = d['types']
        self.methods = d['methods']
        self.globals = d['globals']
        self.initorder = d['initorder']
        self.funcs = {}
        self.typebystr = {t['str']: t for t in self.types}
        for name, fj in d['funcs'].items():
            self.funcs[name] = self._func(fj)

    # ------------------------------------------------------------------
    def zero(self, tid):
        t = self.types[tid]
        k = t['kind']
        if k == 'int':
            return 0
        if k == 'bool':
            return False
        if k == 'string':
            return EMPTYSTR
        if k == 'float':
            return ('D', 0)
        if k == 'slice':
            return NILSLICE
        if k == 'array':
            return ('A', (self.zero(t['elem']),) * t['len'])
        if k == 'struct':
            return ('T', tuple(self.zero(f['type']) for f in (t.get('fields') or [])))
        return None  # ptr, iface, map, func, chan, nil

    def const(self, o):
        t = self.types[o['t']]
        k = t['kind']
        ck = o.get('ck')
        c = o.get('c')
        if ck == 'zero' or c is None:
            return self.zero(o['t'])
        if k == 'int':
            return int(c) & mask(t['bits'])
        if k == 'bool':
            return bool(c)
        if k == 'string':
            return ('Z', tuple(bytes.fromhex(c)))
        if k == 'float':
            if ck == 'int':
                import struct
                return ('D', struct.unpack('<Q', struct.pack('<d', float(int(c))))[0])
            return ('D', int(c))
        if k == 'iface' or k == 'nil':
            return None
        raise NotImplementedError('const of kind %s' % k)

    def operand(self, o):
        if o is None:
            return None
        if 'v' in o:
            return (K_VAR, o['v'])
        if 'g' in o:
            return (K_GLOBAL, o['g'])
        if 'fn' in o:
            return (K_FUNC, o['fn'])
        if 'bi' in o:
            return (K_BUILTIN, o['bi'])
        return (K_CONST, self.const(o))

    def _func(self, fj):
        f = Func()
        f.name = fj['name']
        self._curfn = f.name
        f.short = f.name.split('/')[-1]
        f.extern = bool(fj.get('extern'))
        f.pkg = fj.get('pkg')
        f.pos = fj.get('pos', '')
        f.blocks = None
        f.nreturns = 0
        f.params = [(p['name'], p['type']) for p in (fj.get('params') or [])]
        f.freevars = [(p['name'], p['type']) for p in (fj.get('freevars') or [])]
        f.results = fj.get('results') or []
        f.ninstr = fj.get('ninstr', 0)
        f.hash = fj.get('hash', '')
        if f.extern or not fj.get('blocks'):
            f.extern = True
            return f
        blocks = []
        for bj in fj['blocks']:
            b = Block()
            b.fn = f
            b.index = bj['index']
            b.comment = bj.get('comment', '')
            b.succs = bj.get('succs') or []
            b.preds = bj.get('preds') or []
            b.predpos = {}
            for i, p in enumerate(b.preds):
                b.predpos.setdefault(p, i)
            b.phis = []
            b.instrs = []
            for ij in bj['instrs']:
                ins = self._instr(ij)
                if ins['op'] == 'Phi':
                    b.phis.append((ins['name'], ins['edges']))
                else:
                    b.instrs.append(ins)
            b.ismerge = len(b.preds) >= 2
            blocks.append(b)
        f.blocks = blocks
        # append(s, make([]T, n)...): the compiler extends s in place (no temporary is allocated) when the
        # make has no capacity argument and its only use is that append (cmd/compile walk: isAppendOfMake)
        nuse = {}
        for b in blocks:
            for name, edges in b.phis:
                for e in edges:
                    if e is not None and e[0] == K_VAR:
                        nuse[e[1]] = nuse.get(e[1], 0) + 2
            for ins in b.instrs:
                for v in self._uses(ins):
                    nuse[v] = nuse.get(v, 0) + 1
        for b in blocks:
            mk = {}
            for ins in b.instrs:
                if ins['op'] == 'MakeSlice' and ins.get('len') == ins.get('cap'):
                    mk[ins['name']] = ins
                c = ins.get('call')
                if c and c.get('callee') is not None and c['callee'][0] == K_BUILTIN and c['callee'][1] == 'append' and len(c['args']) == 2:
                    a = c['args'][1]
                    if a is not None and a[0] == K_VAR and a[1] in mk and nuse.get(a[1]) == 1:
                        mk[a[1]]['append_of_make'] = True
        f.nreturns = sum(1 for b in blocks for i in b.instrs if i['op'] == 'Return')
        self._liveness(f)
        self._rpo(f)
        return f

    def _instr(self, ij):
        ins = dict(ij)
        for k in ('x', 'y', 'cond', 'index', 'low', 'high', 'max', 'addr', 'val', 'len', 'cap', 'map', 'key', 'value', 'iter', 'reserve', 'fn'):
            if k in ins and (isinstance(ins[k], dict) or ins[k] is None):
                ins[k] = self.operand(ins[k])
        if self.scale and ins.get('op') == 'BinOp' and ins.get('tok') in ('==', '!=', '<', '<=', '>', '>=') and self.scale[0].search(self._curfn):
            for k in ('x', 'y'):
                o = ins.get(k)
                if o is not None and o[0] == K_CONST and o[1] == self.scale[1]:
                    ins[k] = (K_CONST, self.scale[2])
                    self.scaled_sites.append('%s %s' % (self._curfn.split('/')[-1], ins.get('pos', '').split('/')[-1]))
        if 'edges' in ins:
            ins['edges'] = [self.operand(e) for e in ins['edges']]
        if 'results' in ins:
            ins['results'] = [self.operand(e) for e in (ins['results'] or [])]
        if 'bindings' in ins:
            ins['bindings'] = [self.operand(e) for e in (ins['bindings'] or [])]
        if 'call' in ins:
            c = dict(ins['call'])
            c['args'] = [self.operand(a) for a in (c.get('args') or [])]
            if 'callee' in c:
                c['callee'] = self.operand(c['callee'])
            if 'recv' in c:
                c['recv'] = self.operand(c['recv'])
            ins['call'] = c
        return ins

    @staticmethod
    def _uses(ins):
        out = []
        for k in ('x', 'y', 'cond', 'index', 'low', 'high', 'max', 'addr', 'val', 'len', 'cap', 'map', 'key', 'value', 'iter', 'reserve', 'fn'):
            o = ins.get(k)
            if o is not None and o.__class__ is tuple and o[0] == K_VAR:
                out.append(o[1])
        for k in ('results', 'bindings'):
            for o in ins.get(k) or ():
                if o is not None and o[0] == K_VAR:
                    out.append(o[1])
        c = ins.get('call')
        if c:
            for o in c['args']:
                if o is not None and o[0] == K_VAR:
                    out.append(o[1])
            for k in ('callee', 'recv'):
                o = c.get(k)
                if o is not None and o[0] == K_VAR:
                    out.append(o[1])
        return out

    def _liveness(self, f):
        blocks = f.blocks
        n = len(blocks)
        use = [set() for _ in range(n)]
        defs = [set() for _ in range(n)]
        phiuse = [dict() for _ in range(n)]  # block -> pred -> set
        for b in blocks:
            d = defs[b.index]
            u = use[b.index]
            for name, edges in b.phis:
                d.add(name)
                for pos, e in enumerate(edges):
                    if e is not None and e[0] == K_VAR:
                        phiuse[b.index].setdefault(b.preds[pos], set()).add(e[1])
            for ins in b.instrs:
                for v in self._uses(ins):
                    if v not in d:
                        u.add(v)
                if 'name' in ins:
                    d.add(ins['name'])
            # per call instruction: names used after it inside the block
            after = set()
            for ins in reversed(b.instrs):
                if ins['op'] == 'Call':
                    ins['_after'] = frozenset(after)
                for v in self._uses(ins):
                    after.add(v)
        livein = [set(u) for u in use]
        liveout = [set() for _ in range(n)]
        changed = True
        order = list(range(n - 1, -1, -1))
        while changed:
            changed = False
            for i in order:
                b = blocks[i]
                lo = set()
                for s in b.succs:
                    lo |= livein[s]
                    pu = phiuse[s].get(i)
                    if pu:
                        lo |= pu
                if lo != liveout[i]:
                    liveout[i] = lo
                li = use[i] | (lo - defs[i])
                if li != livein[i]:
                    livein[i] = li
                    changed = True
        for b in blocks:
            b.livein = frozenset(livein[b.index])
            lo = liveout[b.index]
            for ins in b.instrs:
                if ins['op'] == 'Call':
                    ins['_keep'] = ins['_after'] | lo

    def _rpo(self, f):
        blocks = f.blocks
        seen = [False] * len(blocks)
        post = []
        stack = [(0, 0)]
        seen[0] = True
        while stack:
            bi, si = stack[-1]
            succs = blocks[bi].succs
            if si < len(succs):
                stack[-1] = (bi, si + 1)
                s = succs[si]
                if not seen[s]:
                    seen[s] = True
                    stack.append((s, 0))
            else:
                post.append(bi)
                stack.pop()
        for b in blocks:
            b.rpo = len(blocks)
        for i, bi in enumerate(reversed(post)):
            blocks[bi].rpo = i
