//go:build verif && verifnative

package fp

import (
	"math"
	"math/big"
)

func vDecRat(a *decimal) *big.Rat {
	n := new(big.Int)
	for i := 0; i < a.nd; i++ {
		n.Mul(n, big.NewInt(10))
		n.Add(n, big.NewInt(int64(a.d[i]-'0')))
	}
	r := new(big.Rat).SetInt(n)
	e := a.dp - a.nd
	p := new(big.Rat).SetInt(new(big.Int).Exp(big.NewInt(10), big.NewInt(int64(abs(e))), nil))
	if e >= 0 {
		r.Mul(r, p)
	} else {
		r.Quo(r, p)
	}
	return r
}

func vAssertShift(before, after *decimal, k int, left bool, id string) {
	want := vDecRat(before)
	two := new(big.Rat).SetInt(new(big.Int).Lsh(big.NewInt(1), uint(k)))
	if left {
		want.Mul(want, two)
	} else {
		want.Quo(want, two)
	}
	ok := vDecRat(after).Cmp(want) == 0 && !after.trunc
	for i := 0; i < after.nd; i++ {
		if after.d[i] < '0' || after.d[i] > '9' {
			ok = false
		}
	}
	if after.nd > 0 && (after.d[after.nd-1] == '0') {
		ok = false
	}
	if !ok {
		vFailures = append(vFailures, id)
	}
}

func vAssertSetValue(lit []byte, d *decimal, id string) {
	x, vneg := vLitRat(lit)
	ok := x != nil && d.neg == vneg
	if ok {
		lo := vDecRat(d)
		if d.trunc {
			e := d.dp - d.nd
			ulp := new(big.Rat).SetInt(new(big.Int).Exp(big.NewInt(10), big.NewInt(int64(abs(e))), nil))
			if e < 0 {
				ulp.Inv(ulp)
			}
			hi := new(big.Rat).Add(lo, ulp)
			ok = lo.Cmp(x) < 0 && x.Cmp(hi) < 0
		} else {
			ok = lo.Cmp(x) == 0
		}
		for i := 0; i < d.nd; i++ {
			if d.d[i] < '0' || d.d[i] > '9' {
				ok = false
			}
		}
		if d.nd > 0 && d.d[0] == '0' {
			ok = false
		}
	}
	if !ok {
		vFailures = append(vFailures, id)
	}
}

func vAssertRoundedInt(a *decimal, n uint64, id string) {
	v := vDecRat(a)
	nn := new(big.Rat).SetInt(new(big.Int).SetUint64(n))
	half := big.NewRat(1, 2)
	lo := new(big.Rat).Sub(nn, half)
	hi := new(big.Rat).Add(nn, half)
	ok := true
	if a.trunc {
		e := a.dp - a.nd
		ulp := new(big.Rat).SetInt(new(big.Int).Exp(big.NewInt(10), big.NewInt(int64(abs(e))), nil))
		if e < 0 {
			ulp.Inv(ulp)
		}
		top := new(big.Rat).Add(v, ulp)
		ok = lo.Cmp(v) <= 0 && top.Cmp(hi) <= 0
	} else {
		cl, ch := lo.Cmp(v), v.Cmp(hi)
		ok = cl <= 0 && ch <= 0
		if cl == 0 || ch == 0 {
			ok = ok && n%2 == 0
		}
	}
	if !ok {
		vFailures = append(vFailures, id)
	}
}

func vAbsDecimal(d *decimal, lit []byte) {
	d.set(lit)
}

// vAssertHalfwayFits, natively: the exact decimal literal of the midpoint above man*2^e2 must parse to
// the even one of man*2^e2 and (man+1)*2^e2 through ParseJSONFloatPrefix.
func vAssertHalfwayFits(n int, man uint64, e2 int, id string) {
	odd := new(big.Int).SetUint64(man)
	odd.Lsh(odd, 1)
	odd.Add(odd, big.NewInt(1))
	q := 1 - e2
	var lit string
	if q > 0 {
		// odd * 5^q / 10^q
		num := new(big.Int).Mul(odd, new(big.Int).Exp(big.NewInt(5), big.NewInt(int64(q)), nil))
		ds := num.String()
		for len(ds) <= q {
			ds = "0" + ds
		}
		lit = ds[:len(ds)-q] + "." + ds[len(ds)-q:]
	} else {
		lit = new(big.Int).Lsh(odd, uint(-q)).String()
	}
	f, nn, err := ParseJSONFloatPrefix([]byte(lit))
	even := man
	if man&1 == 1 {
		even = man + 1
	}
	want := math.Ldexp(float64(even), e2)
	if err != nil || nn != len(lit) || math.Float64bits(f) != math.Float64bits(want) {
		vFailures = append(vFailures, id)
	}
}

func vAssertScanExpo(lit []byte, mant uint64, exp int, neg bool, trunc bool, id string) {
	if exp > 347 || exp < -348 {
		// beyond the fast tiers' table (possibly capped): the true value must be beyond it on the same side
		x, vneg := vLitRat(lit)
		if x == nil {
			vFailures = append(vFailures, id)
			return
		}
		ten348 := new(big.Rat).SetInt(new(big.Int).Exp(big.NewInt(10), big.NewInt(348), nil))
		ok := neg == vneg
		if mant != 0 {
			if exp > 0 {
				lim := new(big.Rat).SetInt(new(big.Int).SetUint64(mant))
				lim.Mul(lim, ten348)
				ok = ok && x.Cmp(lim) >= 0
			} else {
				lim := new(big.Rat).SetInt(new(big.Int).Add(new(big.Int).SetUint64(mant), big.NewInt(1)))
				lim.Quo(lim, ten348)
				ok = ok && x.Cmp(lim) < 0
			}
		}
		if !ok {
			vFailures = append(vFailures, id)
		}
		return
	}
	vAssertScanValue(lit, mant, exp, neg, trunc, id)
}

func vAssertSetExpo(lit []byte, d *decimal, id string) {
	x, vneg := vLitRat(lit)
	if x == nil {
		vFailures = append(vFailures, id)
		return
	}
	if d.nd == 0 {
		if x.Sign() != 0 || d.neg != vneg {
			vFailures = append(vFailures, id)
		}
		return
	}
	pow := func(e int64) *big.Rat {
		r := new(big.Rat).SetInt(new(big.Int).Exp(big.NewInt(10), big.NewInt(int64(abs(int(e)))), nil))
		if e < 0 {
			r.Inv(r)
		}
		return r
	}
	if d.dp > 310 {
		if d.neg != vneg || x.Cmp(pow(310)) < 0 {
			vFailures = append(vFailures, id)
		}
		return
	}
	if d.dp < -330 {
		if d.neg != vneg || x.Cmp(pow(-331)) >= 0 {
			vFailures = append(vFailures, id)
		}
		return
	}
	vAssertSetValue(lit, d, id)
}
