//go:build verif && !verifnative

package rjson

// Intrinsics intercepted by the symbolic executor (/verif/engine/gosym). They
// have no bodies on purpose: this file is only ever type-checked and lowered
// to SSA through a go/packages overlay, never linked.

func vNondetInt(name string) int
func vNondetBool(name string) bool
func vNondetByte(name string) byte
func vAssume(c bool)
func vAssert(c bool, id string)
func vReach(id string)
func vNumValue(lit []byte) float64
func vNumOverflows(lit []byte) bool
func vAllocWatch(on bool)
func vAllocs() int
func vCostBytes() int
func vCostReset()
func vAssertCost(c bool, id string)
func vFloatSame(a, b float64) bool
