#!/usr/bin/env python3
"""onejob.py <harness> <json args> [timeout]  -- run one symbolic job and print a summary (debug aid)"""
import json, os, sys, time
sys.path.insert(0, '/verif')
from checks import common
from checks.common import *
h = sys.argv[1]
args = json.loads(sys.argv[2])
def conv(a):
    if a[0] == 'tmpl':
        return ('tmpl', a[1], [p if isinstance(p, int) else (tuple(p) if isinstance(p, list) else p.encode('latin1')) for p in a[2]])
    return tuple(a)
pkg = common.FP if h.startswith('vH_EL') or h.startswith('vH_FP') else common.RJSON
job = Job(h, [conv(a) for a in args], pkg=pkg, timeout=float(sys.argv[3]) if len(sys.argv) > 3 else None, opts={'solver_timeout_ms': 10000, 'float_contract': not h.startswith('vH_EL') and not h.startswith('vH_FP'), 'bits_intrinsics': h.startswith('vH_EL'), 'ex.ite_merging': not h == 'vH_FP_set', 'fx_model': h == 'vH_FP_exact', 'glue': h == 'vH_FP_glue', 'slowpath': h == 'vH_FP_slow', 'absdec': h == 'vH_FP_absbits', 'scanvalue': h in ('vH_FP_scan', 'vH_FP_shift', 'vH_FP_set', 'vH_FP_round', 'vH_FP_halfway', 'vH_FP_expo'), 'bv_only': os.environ.get('BV_ONLY') == '1'})
c = Check('DBG', 'quick')
c.add(job)
t = time.time()
r = c.run_jobs(1)[0]
print('wall %.1fs ok=%s err=%s' % (time.time() - t, r['ok'], r['error']))
for k in ('classes', 'partition_complete', 'stats', 'solver', 'reach', 'asserts', 'unsupported', 'inexact'):
    print(k, r.get(k))
for cnd in r['candidates'][:5]:
    print('CAND', {k: cnd[k] for k in ('kind', 'what', 'pos', 'verdict', 'call') if k in cnd})
