"""Tier 5e: floatBits run for real over an *abstract* decimal.

The decimal object no longer holds digits. It denotes the exact rational  V * 2^sh  where V is the value
of the literal it was built from (integer arithmetic over the template's symbolic digits, glue.literal_value)
and sh the binary shifts applied so far. Its units are replaced by their contracts:

    (*decimal).Shift(k)          value *= 2^k exactly                       (established on short operands: tier 5a/b)
    (*decimal).RoundedInteger()  nearest integer, ties to even               (established on short operands: tier 5d)

and the fields floatBits itself reads are kept consistent with the value: nd (0 iff the value is 0), dp (the unique
integer with 10^(dp-1) <= value < 10^dp, chosen by solver-filtered case split after construction and after every
shift), d[0] (only its class '<5' / '>=5', chosen the same way when dp == 0), neg. Everything else in floatBits -
the scaling loops, the power table, exponent bookkeeping, bias, subnormal adjustment, the carry out of rounding,
overflow, the final bit assembly - is the real code.

The record ('ADEC', cells, sh) lives in the struct's trunc slot (floatBits never reads trunc; an abstract decimal
is never truncated)."""
import math
import z3
from .terms import Term, sgn
from .executor import _Dead

L2 = math.log10(2.0)


class AbsDec:
    def __init__(self, ses, glue):
        self.ses = ses
        self.ex = ses.ex
        self.glue = glue
        self.lia = glue.lia

    def install(self, FP):
        ex = self.ex
        ex.hooks[FP + '.vAbsDecimal'] = self.h_make
        ex.hooks['(*' + FP + '.decimal).Shift'] = self.h_shift
        ex.hooks['(*' + FP + '.decimal).RoundedInteger'] = self.h_round

    # ------------------------------------------------------------------
    def _value(self, st, cells):
        vnum, vden, vneg, vside = self.glue.literal_value(cells, st)
        return vnum, vden, vneg, list(vside)

    @staticmethod
    def _cmp_pow(vnum, vden, sh, c):
        """formulas for  value >= 10^c  and for value >= 5*10^(c-1)  where value = vnum/vden * 2^sh"""
        lhs = vnum * (2 ** max(sh, 0)) * (10 ** max(-c, 0))
        rhs = vden * (2 ** max(-sh, 0)) * (10 ** max(c, 0))
        return lhs >= rhs

    def _alternatives(self, st, vnum, vden, vside, sh, cands, allow_zero):
        """feasible (constraints, dp, lead) alternatives for value = vnum/vden*2^sh"""
        lia = self.lia
        base = list(st.raw) + vside
        out = []
        if allow_zero:
            cs = (vnum == 0,)
            if lia.check(st.pc, st.extras, (), raw=base + list(cs)) != 'unsat':
                out.append((cs, None, None))
        for c in cands:
            inr = (self._cmp_pow(vnum, vden, sh, c - 1), z3.Not(self._cmp_pow(vnum, vden, sh, c)), vnum > 0)
            r = lia.check(st.pc, st.extras, (), raw=base + list(inr))
            if r == 'unsat':
                continue
            if r == 'unknown':
                st.inexact = True
            if c != 0:
                out.append((inr, c, ord('1')))
                continue
            # dp == 0: floatBits looks at the leading digit's class
            half = lhs_ge_half = self._half(vnum, vden, sh, c)
            for lead, f in ((ord('5'), half), (ord('1'), z3.Not(half))):
                cs = inr + (f,)
                r2 = lia.check(st.pc, st.extras, (), raw=base + list(cs))
                if r2 != 'unsat':
                    if r2 == 'unknown':
                        st.inexact = True
                    out.append((cs, c, lead))
        return out

    @staticmethod
    def _half(vnum, vden, sh, c):
        # value >= 5 * 10^(c-1)
        lhs = vnum * (2 ** max(sh, 0)) * (10 ** max(1 - c, 0))
        rhs = 5 * vden * (2 ** max(-sh, 0)) * (10 ** max(c - 1, 0))
        return lhs >= rhs

    def _commit(self, st, alts, vside):
        """continue with the first alternative, fork the others (they re-execute the call with their constraint
        already asserted, which leaves them exactly one alternative)"""
        ex = self.ex
        if not alts:
            ex.kill(st)
            raise _Dead()
        for cs, dp, lead in alts[1:]:
            other = st.fork()
            self._add_raw(other, tuple(vside) + tuple(cs))
            ex.stats['forks'] += 1
            ex.pending_forks.append(other)
        cs, dp, lead = alts[0]
        self._add_raw(st, tuple(vside) + tuple(cs))
        return dp, lead

    @staticmethod
    def _add_raw(st, items):
        have = set(r.get_id() for r in st.raw)
        new = []
        for f in items:
            i = f.get_id()
            if i not in have:
                have.add(i)
                new.append(f)
        if new:
            st.raw = tuple(st.raw) + tuple(new)

    def _write(self, st, dptr, cells, sh, dp, lead, neg):
        ex = self.ex
        v = ex.load(st, dptr)
        d = v[1][0]
        if dp is None:
            nv = ('T', (d, 0, 0, bool(neg), ('ADEC', cells, sh)))
        else:
            arr = ('A', (lead,) + tuple(d[1][1:]))
            nv = ('T', (arr, 1, dp & ((1 << 64) - 1), bool(neg), ('ADEC', cells, sh)))
        ex.store_(st, dptr, nv)

    # ------------------------------------------------------------------
    def h_make(self, ex, st, fr, ins, args):
        dptr, lit = args
        cells = tuple(ex.slice_cells(st, lit))
        vnum, vden, vneg, vside = self._value(st, cells)
        # digit positions and decimal exponent from the (concrete) skeleton
        i = 0
        n = len(cells)

        def isdig(c):
            return c.__class__ is Term or 48 <= c <= 57
        if i < n and cells[i] == 45:
            i += 1
        I = 0
        while i < n and isdig(cells[i]):
            I += 1
            i += 1
        F = 0
        if i < n and cells[i] == 46:
            i += 1
            while i < n and isdig(cells[i]):
                F += 1
                i += 1
        E = 0
        if i < n and cells[i] in (101, 69):
            i += 1
            s = 1
            if i < n and cells[i] in (43, 45):
                s = -1 if cells[i] == 45 else 1
                i += 1
            while i < n:
                if cells[i].__class__ is Term:
                    raise NotImplementedError('symbolic exponent digit')
                E = E * 10 + (cells[i] - 48)
                i += 1
            E *= s
        cands = list(range(I + E, I + E - (I + F) - 1, -1))
        alts = self._alternatives(st, vnum, vden, vside, 0, cands, True)
        dp, lead = self._commit(st, alts, vside)
        self._write(st, dptr, cells, 0, dp, lead, vneg)
        return None

    def _rec(self, st, dptr):
        v = self.ex.load(st, dptr)
        d, nd, dp, neg, tr = v[1]
        if not (tr.__class__ is tuple and tr and tr[0] == 'ADEC'):
            raise NotImplementedError('Shift/RoundedInteger on a concrete decimal while the abstract model is installed')
        return tr[1], tr[2], sgn(nd, 64), sgn(dp, 64), neg

    def h_shift(self, ex, st, fr, ins, args):
        dptr, k = args
        if k.__class__ is Term:
            raise NotImplementedError('symbolic shift count')
        k = sgn(k, 64)
        cells, sh, nd, dp, neg = self._rec(st, dptr)
        if nd == 0 or k == 0:
            return None
        vnum, vden, vneg, vside = self._value(st, cells)
        nsh = sh + k
        lo = math.floor(dp - 1 + k * L2 - 1e-9) + 1
        hi = math.ceil(dp + k * L2 + 1e-9)
        cands = list(range(hi, lo - 1, -1))
        alts = self._alternatives(st, vnum, vden, vside, nsh, cands, False)
        ndp, lead = self._commit(st, alts, vside)
        self._write(st, dptr, cells, nsh, ndp, lead, neg)
        return None

    def h_round(self, ex, st, fr, ins, args):
        dptr = args[0]
        cells, sh, nd, dp, neg = self._rec(st, dptr)
        if nd == 0:
            return 0
        if dp > 20:
            return 0xFFFFFFFFFFFFFFFF
        key = ('absm', cells, sh)
        m = self.ses.nondet_vars.get(key)
        if m is None:
            m = self.ex.store.newvar('absm%d' % len(self.ses.nondet_vars), 64, 'free')
            self.ses.nondet_vars[key] = m
        vnum, vden, vneg, vside = self._value(st, cells)
        mz, _, _, ms = self.lia.conv(m)
        # 2*value = 2*vnum*2^sh/vden ; nearest integer, ties to even
        A = 2 * (2 ** max(sh, 0))
        B = vden * (2 ** max(-sh, 0))
        V2 = vnum * A                       # = 2*value*B
        lo2, hi2 = (2 * mz - 1) * B, (2 * mz + 1) * B
        cons = (lo2 <= V2, V2 <= hi2, z3.Implies(z3.Or(lo2 == V2, hi2 == V2), mz % 2 == 0), mz >= 0, mz < 2 ** 64)
        self._add_raw(st, tuple(vside) + tuple(ms) + cons)
        return m
