//go:build verif && verifnative

package rjson

import (
	"fmt"
	"sync"
)

// Confirmation step of C18 (never the deciding step): when the footprint analysis reports a
// write to package-level memory, a battery of API calls on shared read-only inputs is run
// from several goroutines (under -race when the caller enables it) and compared with the
// sequential results.
var vRaceInputs = []string{
	`"plain"`, `"esc\né😀"`, `"tab\there and more escaped text \u00e9"`, `[[1,[2,[3,[4]]]],{"a":{"b":{"c":[1]}}}]`, `[1,2,[3,{"a":"b\tc"}]]`, `{"k":[true,false,null],"s":"x\\y"}`, `-12345`, `18446744073709551615`,
	`1.5e10`, `9007199254740993`, `1.00000000000000011102230246251565404236316680908203125`, `2.2250738585072011e-308`,
	`123456789012345678901234567890e-5`, `4.9e-324`, ` true `, `null`, `[[[[[[1]]]]]]`,
}

// deeply nested and long documents: caches, pools and retained stacks tend to switch on at a size or depth threshold
func init() {
	rep := func(s string, n int) string {
		b := make([]byte, 0, len(s)*n)
		for i := 0; i < n; i++ {
			b = append(b, s...)
		}
		return string(b)
	}
	vRaceInputs = append(vRaceInputs,
		rep("[", 300)+"1"+rep("]", 300),
		rep(`{"a":`, 300)+`"x\n"`+rep("}", 300),
		rep("[", 2500)+rep("]", 2500),
		"["+rep(`{"k":[1,"a\tb"]},`, 1500)+"0]",
		`"`+rep("abcdefgh", 600)+`\u00e9"`,
		rep("[[", 150)+`{"a":[`+rep("1,", 700)+"2]}"+rep("]]", 150),
	)
}

func vRaceOne(in string, own *Buffer) string {
	d := []byte(in)
	out := ""
	v, p, err := ReadValue(d)
	out += fmt.Sprintf("%v %d %v|", v, p, err == nil)
	f, p2, err2 := ReadFloat64(d)
	out += fmt.Sprintf("%v %d %v|", f, p2, err2 == nil)
	s, p3, err3 := ReadString(d, nil)
	out += fmt.Sprintf("%q %d %v|", s, p3, err3 == nil)
	p4, err4 := SkipValue(d, nil)
	out += fmt.Sprintf("%d %v|%v|", p4, err4 == nil, Valid(d, nil))
	i, p5, err5 := ReadInt64(d)
	out += fmt.Sprintf("%d %d %v|", i, p5, err5 == nil)
	var r ValueReader
	v2, p6, err6 := r.ReadValue(d)
	out += fmt.Sprintf("%v %d %v|", v2, p6, err6 == nil)
	var ds string
	p8, err8 := DecodeString(d, &ds, nil)
	out += fmt.Sprintf("%q %d %v|", ds, p8, err8 == nil)
	p9, err9 := SkipValueFast(d, own)
	p10, err10 := SkipValueFast(d, nil)
	out += fmt.Sprintf("%d %v %d %v|", p9, err9 == nil, p10, err10 == nil)
	tt, p7, _ := NextTokenType(d)
	out += fmt.Sprintf("%v %d|%s", tt, p7, StdLibCompatibleString(in))
	return out
}

func vH_C18_race() {
	want := make([]string, len(vRaceInputs))
	for i, in := range vRaceInputs {
		want[i] = vRaceOne(in, &Buffer{})
	}
	var wg sync.WaitGroup
	var mu sync.Mutex
	bad := 0
	for g := 0; g < 8; g++ {
		wg.Add(1)
		go func(g int) {
			defer wg.Done()
			var own Buffer // each goroutine keeps re-using its private Buffer, as the README recommends
			for it := 0; it < 300; it++ {
				i := (it + g) % len(vRaceInputs)
				if vRaceOne(vRaceInputs[i], &own) != want[i] {
					mu.Lock()
					bad++
					mu.Unlock()
				}
			}
		}(g)
	}
	wg.Wait()
	vAssert(bad == 0, "C18.concurrent-results-differ")
}
