//go:build verif

package rjson

import "io"

// Harness entry points. Each takes the symbolic input `data` prepared by the
// driver; further nondeterministic choices come from the vNondet* intrinsics.
// The property is stated as vAssert calls; vReach marks are reachability
// witnesses (a harness whose marks are never reached is reported as vacuous).

// vMakeBuffer builds the scratch Buffer configuration selected by mode:
// 0 nil, 1 fresh zero Buffer, 2.. a "previously used" Buffer, i.e. one whose
// stack slice has arbitrary length (mode-2) and arbitrary contents.
func vMakeBuffer(mode int) *Buffer {
	if mode == 0 {
		return nil
	}
	if mode == 1 {
		return &Buffer{}
	}
	n := mode - 2
	b := &Buffer{stackBuf: make([]int, n)}
	for i := 0; i < n; i++ {
		b.stackBuf[i] = vNondetInt("stack")
	}
	return b
}

// ---- C01 ---------------------------------------------------------------
func vH_C01(data []byte, bufmode int) {
	got := Valid(data, vMakeBuffer(bufmode))
	want := vRefValid(data)
	vReach("C01.compared")
	vAssert(got == want, "C01.verdict")
}

// ---- C02 ---------------------------------------------------------------
func vH_C02(data []byte, bufmode int) {
	p, err := SkipValue(data, vMakeBuffer(bufmode))
	end, ok := vRefSkip(data)
	vReach("C02.compared")
	vAssert((err == nil) == ok, "C02.success")
	if ok && err == nil {
		vAssert(p == end, "C02.offset")
	}
}

// ---- C11 ---------------------------------------------------------------
func vH_C11(data []byte, bufmode int) {
	p, err := SkipValue(data, nil)
	if err != nil {
		return
	}
	vReach("C11.wellformed")
	pf, errf := SkipValueFast(data, vMakeBuffer(bufmode))
	vAssert(errf == nil, "C11.fast-accepts")
	if errf == nil {
		vAssert(pf == p, "C11.same-offset")
	}
}

// ---- C13 ---------------------------------------------------------------
func vH_C13_token(data []byte) {
	ws := vSkipWS(data, 0)
	tt, p, err := NextTokenType(data)
	tok, p2, err2 := NextToken(data)
	if ws == len(data) {
		vReach("C13.eof")
		vAssert(err == io.EOF, "C13.type-eof")
		vAssert(err2 == io.EOF, "C13.token-eof")
		return
	}
	vReach("C13.token")
	want := vRefTokenType(data[ws])
	vAssert(err == nil, "C13.type-noerr")
	vAssert(tt == want, "C13.type-class")
	vAssert(p == ws+1, "C13.type-index")
	vAssert(p2 == ws+1, "C13.token-index")
	vAssert(tok == data[ws], "C13.token-byte")
	vAssert((err2 == nil) == (want != InvalidType), "C13.token-err")
	vAssert(err2 != io.EOF, "C13.token-not-eof")
}

func vH_C13_literals(data []byte) {
	ws := vSkipWS(data, 0)
	isNull := vRefLiteral(data, ws, "null")
	isTrue := vRefLiteral(data, ws, "true")
	isFalse := vRefLiteral(data, ws, "false")
	p, err := ReadNull(data)
	vReach("C13.readnull")
	vAssert((err == nil) == isNull, "C13.null-success")
	if isNull && err == nil {
		vAssert(p == ws+4, "C13.null-offset")
	}
	v, pb, errb := ReadBool(data)
	vAssert((errb == nil) == (isTrue || isFalse), "C13.bool-success")
	if errb == nil && isTrue {
		vAssert(v && pb == ws+4, "C13.true")
	}
	if errb == nil && isFalse {
		vAssert(!v && pb == ws+5, "C13.false")
	}
}
