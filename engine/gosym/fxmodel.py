"""Exact-rational model of IEEE-754 binary64 arithmetic for the 'exact path' of the float
conversion (C04 tier 2), in linear integer arithmetic.

A symbolic float is a descriptor
    ('FX', 'int',  t, neg)                exactly (-1)^neg * t          (t: 64-bit term)
    ('FX', 'rnd',  t, mul, div, neg)      (-1)^neg * rnd(t*mul/div)     (mul, div: exact integer constants)
    ('FX', 'rnd2', inner, c, isdiv, neg)  rnd(value(inner) * c) or / c   (double rounding; inner is a 'rnd')
where rnd is IEEE round-to-nearest-even: the defining property of every IEEE operation on
exact operands. Comparisons with representable constants become linear constraints on the
un-rounded value (rnd(q) <= C  <=>  q <= midpoint(C, succ C), tie by parity). An intermediate
result is replaced by its exact value only when the solver proves it is an integer below 2^53
under the path condition; otherwise the double rounding is kept and decided with R-ROUND.
"""
import math
from fractions import Fraction

import z3

from .terms import Term
from .fpspec import wrong_formula_q

TWO53 = 1 << 53


def fval(bits):
    import struct
    return struct.unpack('<d', struct.pack('<Q', bits))[0]


def const_exact(bits):
    """(neg, Fraction) of a finite float constant"""
    f = fval(bits)
    fr = Fraction(f)
    return (bits >> 63) == 1, abs(fr)


class FxModel:
    def __init__(self, ses):
        self.ses = ses
        self.ex = ses.ex
        self.lia = ses.ex.solver.lia

    # -- constructors ---------------------------------------------------
    def from_uint(self, t):
        return ('D', ('FX', 'int', t, False))

    def neg(self, x):
        fx = x[1]
        if fx[1] == 'int':
            return ('D', ('FX', 'int', fx[2], not fx[3]))
        if fx[1] == 'rnd':
            return ('D', ('FX', 'rnd', fx[2], fx[3], fx[4], not fx[5]))
        return ('D', ('FX', 'rnd2', fx[2], fx[3], fx[4], not fx[5]))

    def tz(self, t):
        e, lo, hi, side = self.lia.conv(t)
        return e, lo, hi, list(side)

    # value of an 'int'/'rnd' descriptor's pre-rounding quantity as (numerator expr, denominator const)
    def q_of(self, fx):
        if fx[1] == 'int':
            e, lo, hi, side = self.tz(fx[2])
            return e, 1, side, hi
        if fx[1] == 'rnd':
            e, lo, hi, side = self.tz(fx[2])
            return e * fx[3], fx[4], side, hi * fx[3]
        raise NotImplementedError

    # -- arithmetic -------------------------------------------------------
    def mul_const(self, st, x, cbits, isdiv):
        fx = x[1]
        cneg, c = const_exact(cbits)
        if c.denominator != 1 or cneg:
            raise NotImplementedError('float constant is not a positive integer')
        c = c.numerator
        if fx[1] == 'int':
            # float64(t) is exact only below 2^53: require it
            if not self.proves(st, fx, lambda num, den: num > TWO53 * den):
                raise NotImplementedError('float64(uint64) of a value that may exceed 2^53')
            if isdiv:
                return ('D', ('FX', 'rnd', fx[2], 1, c, fx[3]))
            return ('D', ('FX', 'rnd', fx[2], c, 1, fx[3]))
        if fx[1] == 'rnd':
            # is the intermediate exact?  (an integer not above 2^53 is representable, so rnd is the identity)
            if fx[4] == 1 and self.proves(st, fx, lambda num, den: num > TWO53 * den):
                if isdiv:
                    return ('D', ('FX', 'rnd', fx[2], fx[3], c, fx[5]))
                return ('D', ('FX', 'rnd', fx[2], fx[3] * c, 1, fx[5]))
            return ('D', ('FX', 'rnd2', fx, c, isdiv, fx[5]))
        raise NotImplementedError('float operation on a doubly rounded value')

    def proves(self, st, fx, bad):
        """True iff  pc /\\ extras /\\ raw /\\ bad(q)  is unsat"""
        num, den, side, _ = self.q_of(fx)
        r = self.lia.check(st.pc, st.extras, (), raw=list(st.raw) + side + [bad(num, den)])
        return r == 'unsat'

    # -- comparison with a constant ----------------------------------------
    def cmp_const(self, x, tok, cbits):
        """z3 formula for  value(x) tok C  (x 'int' or 'rnd'), exact"""
        fx = x[1]
        cneg, c = const_exact(cbits)
        C = -c if cneg else c
        num, den, side, _ = self.q_of(fx)
        neg = fx[3] if fx[1] == 'int' else fx[5]
        if fx[1] == 'int':
            # exact value v = +-num/den
            v_num = -num if neg else num
            lhs, rhs = v_num * C.denominator, C.numerator * den
            f = {'<': lhs < rhs, '<=': lhs <= rhs, '>': lhs > rhs, '>=': lhs >= rhs, '==': lhs == rhs, '!=': lhs != rhs}[tok]
            return f, side
        # rnd(q) tok C with q = +-num/den >= 0 in magnitude; C representable.
        # rnd(v) <= C  <=>  v <= mid(C, succ C)  (tie allowed iff C has even significand)
        # rnd(v) >= C  <=>  v >= mid(pred C, C)  (tie allowed iff C even)
        f = fval(cbits)
        up = Fraction(math.nextafter(f, math.inf))
        dn = Fraction(math.nextafter(f, -math.inf))
        Cq = Fraction(f)
        even = (cbits & 1) == 0
        mid_up = (Cq + up) / 2
        mid_dn = (Cq + dn) / 2
        v_num = -num if neg else num

        def le(mid, incl):
            lhs, rhs = v_num * mid.denominator, mid.numerator * den
            return (lhs <= rhs) if incl else (lhs < rhs)

        def ge(mid, incl):
            lhs, rhs = v_num * mid.denominator, mid.numerator * den
            return (lhs >= rhs) if incl else (lhs > rhs)
        if tok == '<=':
            return le(mid_up, even), side
        if tok == '>':
            return z3.Not(le(mid_up, even)), side
        if tok == '>=':
            return ge(mid_dn, even), side
        if tok == '<':
            return z3.Not(ge(mid_dn, even)), side
        raise NotImplementedError('float comparison ' + tok)

    # -- final obligation ---------------------------------------------------
    def check_result(self, st, man_t, e10, neg, fx):
        """is value(fx) the correctly rounded (-1)^neg * man * 10^e10 ?  returns list of (verdict, info)"""
        lia = self.lia
        man, _, _, mside = lia.conv(man_t) if man_t.__class__ is Term else (z3.IntVal(man_t), 0, 0, ())
        base = list(st.raw) + list(mside)
        A = 10 ** max(e10, 0)
        B = 10 ** max(-e10, 0)
        kind = fx[1]
        fneg = fx[3] if kind == 'int' else fx[5]
        if neg.__class__ is Term:
            negz, _, _, nside = lia.conv(neg)
            base += list(nside)
            signbad = (negz != z3.BoolVal(bool(fneg))) if fneg.__class__ is bool else z3.BoolVal(False)
        else:
            signbad = z3.BoolVal(bool(neg) != bool(fneg))
        out = []
        if kind in ('int', 'rnd'):
            # a single correctly rounded IEEE operation on exact operands: the result is rnd(q); it is the
            # correctly rounded literal iff q equals man*10^e10
            num, den, side, _ = self.q_of(fx)
            differs = z3.Or(signbad, num * B != man * A * den)
            if kind == 'int':
                differs = z3.Or(differs, num > TWO53)
            r = lia.check(st.pc, st.extras, (), raw=base + side + [differs])
            out.append((r, {'assign': lia.model_assign()} if r == 'sat' else {}))
            return out
        # double rounding: r1 = rnd(q1); result = rnd(r1*c) (or r1/c); enumerate the exponent field of r1
        inner, c, isdiv = fx[2], fx[3], fx[4]
        num1, den1, side1, hi1 = self.q_of(inner)
        hi_v = Fraction(hi1, den1)
        lo_ef, hi_ef = 0, 1023 + max(1, hi_v.numerator.bit_length() - hi_v.denominator.bit_length() + 2)
        frac1 = lia.fresh('f1')
        fracr = lia.fresh('fr')
        rng = [frac1 >= 0, frac1 < (1 << 52), fracr >= 0, fracr < (1 << 52)]
        for ef1 in range(lo_ef, hi_ef + 1):
            inner_ok = z3.Not(wrong_formula_q(num1, den1, ef1, frac1))
            fs0 = base + side1 + rng + [inner_ok]
            if lia.check(st.pc, st.extras, (), raw=fs0) == 'unsat':
                continue
            # value of r1 = M1 * 2^E1
            if ef1 == 0:
                M1, E1 = frac1, -1074
            else:
                M1, E1 = frac1 + (1 << 52), ef1 - 1075
            n2 = M1 * (2 ** max(E1, 0)) * (1 if isdiv else c)
            d2 = (2 ** max(-E1, 0)) * (c if isdiv else 1)
            # exponent field candidates of the final result: around ef1 + log2(c)
            shift = (c.bit_length() - 1) * (-1 if isdiv else 1)
            for efr in range(max(0, ef1 + shift - 1), min(0x7FE, ef1 + shift + 2) + 1):
                res_ok = z3.Not(wrong_formula_q(n2, d2, efr, fracr))
                wrong = z3.Or(signbad, wrong_formula_q(man * A, B, efr, fracr))
                r = lia.check(st.pc, st.extras, (), raw=fs0 + [res_ok, wrong])
                if r == 'sat':
                    out.append(('sat', {'assign': lia.model_assign(), 'ef1': ef1, 'ef': efr}))
                    return out
                out.append((r, {'ef1': ef1, 'ef': efr}))
        return out
