"""Symbolic executor for the exported go/ssa form.

Values
  int / bool                concrete scalar (ints unsigned modulo 2^w)
  Term                      symbolic scalar (w == 0: bool)
  None                      nil pointer / interface / map / func
  ('P', obj, path)          pointer into heap object `obj`
  ('S', obj, path, off, len, cap)   slice (obj None: nil slice)
  ('Z', bytes)              string, by value
  ('T', fields) ('A', cells) ('U', elems)   struct / array / tuple by value
  ('I', typestr, payload)   non-nil interface
  ('F', fnname, bindings)   function value / closure
  ('M', obj)                map (heap object holds ('MAP', entries))
  ('D', bits)               float64 by its IEEE bit pattern (int or Term)
"""
import heapq
import z3
import struct
import sys
import time

from .terms import Term, TermStore, mask, sgn
from .mdd import MDD, TRUE, FULL
from .program import Program, NILSLICE, EMPTYSTR, K_CONST, K_VAR, K_GLOBAL, K_FUNC, K_BUILTIN
from .solver import Solver

sys.setrecursionlimit(20000)


NO_INIT_PKGS = ('encoding/binary',)


class Unsupported(Exception):
    pass


class Frame:
    __slots__ = ('fn', 'block', 'idx', 'env', 'defers', 'retname', 'prev')

    def copy(self):
        f = Frame()
        f.fn = self.fn
        f.block = self.block
        f.idx = self.idx
        f.env = dict(self.env)
        f.defers = list(self.defers) if self.defers else None
        f.retname = self.retname
        f.prev = self.prev
        return f


class State:
    __slots__ = ('frames', 'heap', 'pc', 'extras', 'flags', 'dirty', 'status', 'result', 'inexact', 'nondet', 'conc', 'lastj', 'raw', 'lkey')

    def fork(self):
        s = State()
        s.frames = [f.copy() for f in self.frames]
        s.heap = dict(self.heap)
        s.pc = self.pc
        s.extras = self.extras
        s.flags = self.flags
        s.dirty = self.dirty
        s.status = None
        s.result = None
        s.inexact = self.inexact
        s.nondet = self.nondet
        s.conc = self.conc
        s.lastj = self.lastj
        s.raw = self.raw
        s.lkey = None
        return s


def f2bits(x):
    return struct.unpack('<Q', struct.pack('<d', x))[0]


def bits2f(b):
    return struct.unpack('<d', struct.pack('<Q', b))[0]


class Executor:
    def __init__(self, prog, seed=0, solver_timeout_ms=60000, max_states=5_000_000):
        self.prog = prog
        self.store = TermStore()
        self.mdd = MDD()
        self.solver = Solver(self.store, timeout_ms=solver_timeout_ms, seed=seed)
        self.nextobj = 1
        self.objtag = {}           # objid -> tag ('global', name) / ('input', name) / ('alloc', site) ...
        self.globals = {}          # global name -> objid
        self.baseheap = {}
        self.static_limit = 0
        self.stats = {'blocks': 0, 'instrs': 0, 'merges': 0, 'forks': 0, 'states': 0, 'terminals': 0, 'concretise': 0}
        self.max_states = max_states
        self.intrinsics = {}
        self.hooks = {}            # name -> python callable(ex, st, fr, ins, args) for harness intrinsics
        self.stub_parsefloat = False
        self.nondet_counter = 0
        self.concretise_cap = 64
        self.events = {}           # (kind, site) -> pc (OR of path conditions where it happened)
        self.monitor_alloc = False
        self.monitor_writes = True
        self.escape_lines = None
        self.readonly = set()      # objids that must never be written
        self.unroll_limit = None
        self.deadline = None
        self._init_done = False
        self.entered = set()
        self.ite_merging = True
        self.concretise_shifts = False
        self.lazy_forks = False
        self.fx = None
        self.glue = None
        self.cost_mode = False
        self._bigcanon = {}
        self.cost_oid = None
        self._returned = False

    # ==================================================================
    # heap helpers
    def newobj(self, st, value, tag):
        oid = self.nextobj
        self.nextobj += 1
        st.heap[oid] = value
        self.objtag[oid] = tag
        return oid

    @staticmethod
    def getpath(v, path):
        for p in path:
            v = v[1][p]
        return v

    @staticmethod
    def setpath(v, path, nv):
        if not path:
            return nv
        i = path[0]
        cells = v[1]
        sub = Executor.setpath(cells[i], path[1:], nv)
        return (v[0], cells[:i] + (sub,) + cells[i + 1:])

    def load(self, st, ptr, pos=''):
        if ptr is None:
            self.panic(st, 'nil dereference', pos)
            return None
        obj = st.heap[ptr[1]]
        path = ptr[2]
        if path and path[-1].__class__ is Term:
            # symbolic last index: build select / ite chain
            arr = self.getpath(obj, path[:-1])
            return self.select_cells(arr[1], path[-1])
        return self.getpath(obj, path)

    def select_cells(self, cells, idx):
        allint = True
        for c in cells:
            if c.__class__ is not int and c.__class__ is not bool:
                allint = False
                break
        if allint:
            isb = cells and cells[0].__class__ is bool
            ew = 0 if isb else 64
            tid = self.store.consttab(cells, ew)
            return ('SEL', tid, idx)   # resolved by caller with the element type
        # ite chain (cells may be terms)
        return ('ITE', cells, idx)

    def store_(self, st, ptr, val, pos=''):
        if ptr is None:
            self.panic(st, 'nil dereference', pos)
            return
        oid = ptr[1]
        if oid in self.readonly and 'zz_verif' not in pos:     # (a harness may refill its own input buffer)
            self.event(st, 'write-to-input', '%s %s' % (self.objtag.get(oid), pos))
        if oid < self.static_limit:
            tag = self.objtag.get(oid)
            if tag and tag[0] == 'global' and self._init_done:
                self.event(st, 'global-write', '%s %s' % (tag[1], pos))
            if oid not in st.dirty:
                st.dirty = st.dirty | {oid}
        path = ptr[2]
        if path and path[-1].__class__ is Term:
            raise Unsupported('store through symbolic index at %s' % pos)
        st.heap[oid] = self.setpath(st.heap[oid], path, val)

    def event(self, st, kind, site):
        k = (kind, site)
        self.events[k] = self.mdd.or_(self.events.get(k), st.pc)
        if (kind, site) not in st.flags:
            st.flags = st.flags | {(kind, site)}

    # ==================================================================
    # symbolic input helpers
    def new_bytes(self, st, name, n, tag='input', readonly=True):
        cells = tuple(self.store.newvar('%s_%d' % (name, i), 8, 'byte') for i in range(n))
        oid = self.newobj(st, ('A', cells), (tag, name))
        if readonly:
            self.readonly.add(oid)
        return ('S', oid, (), 0, n, n), cells

    def concrete_bytes(self, st, name, data, extra_cap=0, tag='input', readonly=True):
        cells = tuple(data) + (0,) * extra_cap
        oid = self.newobj(st, ('A', cells), (tag, name))
        if readonly:
            self.readonly.add(oid)
        return ('S', oid, (), 0, len(data), len(cells))

    def new_free(self, name, w):
        return self.store.newvar(name, w, 'free')

    # ==================================================================
    # scalar ops
    def tinfo(self, tid):
        return self.prog.types[tid]

    def binop(self, tok, x, y, xt, yt, rt, st, pos):
        T = self.prog.types
        kx = T[xt]['kind']
        mk = self.store.mk
        if kx == 'int':
            w = T[xt]['bits']
            signed = T[xt]['signed']
            if x.__class__ is int and y.__class__ is int:
                # fast concrete path
                if tok == '+':
                    return (x + y) & mask(w)
                if tok == '-':
                    return (x - y) & mask(w)
                if tok == '==':
                    return x == y
                if tok == '!=':
                    return x != y
                if tok == '<':
                    return (sgn(x, w) < sgn(y, w)) if signed else x < y
                if tok == '<=':
                    return (sgn(x, w) <= sgn(y, w)) if signed else x <= y
                if tok == '>':
                    return (sgn(x, w) > sgn(y, w)) if signed else x > y
                if tok == '>=':
                    return (sgn(x, w) >= sgn(y, w)) if signed else x >= y
            if tok == '+':
                return mk('add', w, x, y)
            if tok == '-':
                return mk('sub', w, x, y)
            if tok == '*':
                return mk('mul', w, x, y)
            if tok == '&':
                return mk('and', w, x, y)
            if tok == '|':
                return mk('or', w, x, y)
            if tok == '^':
                return mk('xor', w, x, y)
            if tok == '&^':
                return mk('andnot', w, x, y)
            if tok == '==':
                return mk('eq', 0, x, y)
            if tok == '!=':
                return mk('ne', 0, x, y)
            if tok in ('<', '<=', '>', '>='):
                if tok in ('>', '>='):
                    x, y = y, x
                op = {'<': 'lt', '<=': 'le', '>': 'lt', '>=': 'le'}[tok]
                if signed:
                    return mk('s' + op, 0, x, y, w)
                return mk('u' + op, 0, x, y)
            if tok in ('/', '%'):
                nz = mk('ne', 0, y, 0)
                if not self.require(st, nz, 'integer divide by zero', pos):
                    return None
                if signed:
                    return mk('sdiv' if tok == '/' else 'srem', w, x, y)
                return mk('udiv' if tok == '/' else 'urem', w, x, y)
            if tok in ('<<', '>>'):
                # shift count: any integer type, Go semantics (count >= w gives 0 / sign fill)
                yw = T[yt]['bits']
                if T[yt]['signed']:
                    neg = mk('slt', 0, y, 0, yw)
                    if not self.require(st, self.store.bnot(neg), 'negative shift amount', pos):
                        return None
                if y.__class__ is Term and self.concretise_shifts:
                    y = self.conc(st, y, 'shift count')
                if y.__class__ is int:
                    yy = y if y < w else w
                else:
                    # clamp to w in the result width
                    if yw > w:
                        big = mk('ult', 0, w, y)
                        yy = self.store.ite(big, w, mk('trunc', w, y), w)
                    elif yw < w:
                        yy = mk('zext', w, y)
                    else:
                        yy = y
                if tok == '<<':
                    return mk('shl', w, x, yy)
                return mk('ashr' if signed else 'lshr', w, x, yy)
            raise Unsupported('int binop ' + tok)
        if kx == 'bool':
            if tok == '==':
                return self.store.bnot(self.bxor(x, y))
            if tok == '!=':
                return self.bxor(x, y)
            if tok == '&&' or tok == '&':
                return self.store.band(x, y)
            if tok == '||' or tok == '|':
                return self.store.bor(x, y)
            raise Unsupported('bool binop ' + tok)
        if kx == 'string':
            x, y = self.zs(st, x), self.zs(st, y)
            if tok in ('==', '!='):
                r = self.bytes_eq(x[1], y[1])
                return r if tok == '==' else self.store.bnot(r)
            if tok == '+':
                return ('Z', x[1] + y[1])
            if tok in ('<', '<=', '>', '>='):
                if all(c.__class__ is int for c in x[1] + y[1]):
                    a, b = bytes(x[1]), bytes(y[1])
                    return {'<': a < b, '<=': a <= b, '>': a > b, '>=': a >= b}[tok]
            raise Unsupported('string binop ' + tok)
        if kx == 'float':
            return self.floatop(tok, x, y, st, pos)
        if kx in ('ptr', 'iface', 'map', 'func', 'chan', 'slice', 'nil', 'unsafeptr'):
            if tok in ('==', '!='):
                r = self.ref_eq(x, y)
                return r if tok == '==' else self.store.bnot(r)
        if kx == 'array' or kx == 'struct':
            if tok in ('==', '!=') and x == y:
                return tok == '=='
        raise Unsupported('binop %s on %s' % (tok, kx))

    def zs(self, st, v):
        """materialise a string: ('ZA', obj, path, off, len) is a string header aliasing a byte
        buffer (produced only by unsafe []byte->string reinterpretation); its content is whatever the
        buffer holds when the string is used"""
        if v.__class__ is tuple and v and v[0] == 'ZA':
            arr = self.getpath(st.heap[v[1]], v[2])
            return ('Z', tuple(arr[1][v[3]:v[3] + v[4]]))
        return v

    def bxor(self, x, y):
        if x.__class__ is bool and y.__class__ is bool:
            return x != y
        if x is False:
            return y
        if y is False:
            return x
        if x is True:
            return self.store.bnot(y)
        if y is True:
            return self.store.bnot(x)
        return self.store.bnot(self.store.mk('beq', 0, x, y))

    def bytes_eq(self, a, b):
        if len(a) != len(b):
            return False
        r = True
        for x, y in zip(a, b):
            if x.__class__ is int and y.__class__ is int:
                if x != y:
                    return False
            else:
                r = self.store.band(r, self.store.eq(x, y) if x is not y else True)
        return r

    def ref_eq(self, x, y):
        if x is None or y is None:
            if x is None and y is None:
                return True
            z = x if y is None else y
            if z[0] == 'S':
                return z[1] is None
            return False
        if x[0] == 'I' and y[0] == 'I':
            if x[1] != y[1]:
                return False
            px, py = x[2], y[2]
            if px.__class__ is tuple and px and px[0] in ('P', 'M', 'I'):
                return self.ref_eq(px, py)
            if px.__class__ is tuple and px[0] == 'Z':
                return self.bytes_eq(px[1], py[1])
            if px.__class__ in (int, bool, Term) or py.__class__ in (int, bool, Term):
                return self.store.eq(px, py) if (px.__class__ is Term or py.__class__ is Term) else px == py
            if px.__class__ is tuple and px[0] == 'D':
                raise Unsupported('interface float compare')
            return px == py
        if x[0] == 'P' and y[0] == 'P':
            return x[1] == y[1] and x[2] == y[2]
        if x[0] == 'M' and y[0] == 'M':
            return x[1] == y[1]
        if x[0] == 'S' and y[0] == 'S':
            # Go only allows comparing a slice with nil
            if x[1] is None or y[1] is None:
                return x[1] is None and y[1] is None
            raise Unsupported('slice compare')
        if x[0] == 'S' or y[0] == 'S':
            raise Unsupported('slice compare')
        return x == y

    def floatop(self, tok, x, y, st, pos):
        a, b = x[1], y[1]
        if self.glue is not None and tok == '==' and a.__class__ is tuple and b.__class__ is tuple and (a[0] == 'GR' or b[0] == 'GR'):
            return self.glue.feq(st, a, b)
        if self.fx is not None and ((a.__class__ is tuple and a[0] == 'FX') or (b.__class__ is tuple and b[0] == 'FX')):
            if b.__class__ is int and a.__class__ is tuple:
                if tok in ('*', '/'):
                    return self.fx.mul_const(st, x, b, tok == '/')
                form, side = self.fx.cmp_const(x, tok, b)
                return ('RAW', form, tuple(side))
            if a.__class__ is int and tok == '*':
                return self.fx.mul_const(st, y, a, False)
            raise Unsupported('float op %s in the exact-rational model' % tok)
        if a.__class__ is tuple or b.__class__ is tuple:
            # uninterpreted literal values ('NUM', bytes): only (in)equality of identical literals is decided
            if tok in ('==', '!=') and a.__class__ is tuple and b.__class__ is tuple:
                r = self.bytes_eq(a[1], b[1])
                if r is True:
                    return tok == '=='
            raise Unsupported('float op %s on uninterpreted number values' % tok)
        if a.__class__ is not int or b.__class__ is not int:
            raise Unsupported('symbolic float op %s at %s' % (tok, pos))
        fa, fb = bits2f(a), bits2f(b)
        if tok == '+':
            return ('D', f2bits(fa + fb))
        if tok == '-':
            return ('D', f2bits(fa - fb))
        if tok == '*':
            return ('D', f2bits(fa * fb))
        if tok == '/':
            if fb == 0.0:
                if fa == 0.0 or fa != fa:
                    return ('D', 0x7ff8000000000001)
                neg = (a >> 63) ^ (b >> 63)
                return ('D', (neg << 63) | 0x7ff0000000000000)
            return ('D', f2bits(fa / fb))
        if tok == '==':
            return fa == fb
        if tok == '!=':
            return fa != fb
        if tok == '<':
            return fa < fb
        if tok == '<=':
            return fa <= fb
        if tok == '>':
            return fa > fb
        if tok == '>=':
            return fa >= fb
        raise Unsupported('float op ' + tok)

    def convert(self, x, xt, rt, st, pos):
        T = self.prog.types
        a, b = T[xt], T[rt]
        ka, kb = a['kind'], b['kind']
        mk = self.store.mk
        if ka == 'int' and kb == 'int':
            wa, wb = a['bits'], b['bits']
            if wa == wb:
                return x
            if wb < wa:
                return x & mask(wb) if x.__class__ is int else mk('trunc', wb, x)
            if a['signed']:
                return (sgn(x, wa) & mask(wb)) if x.__class__ is int else mk('sext', wb, x, wa)
            return x if x.__class__ is int else mk('zext', wb, x)
        if ka == 'int' and kb == 'float':
            if x.__class__ is not int and self.fx is not None and not a['signed']:
                return self.fx.from_uint(x)
            if x.__class__ is not int:
                return ('D', mk('i2f' if a['signed'] else 'u2f', 64, x, a['bits']))
            v = sgn(x, a['bits']) if a['signed'] else x
            return ('D', f2bits(float(v)))
        if ka == 'float' and kb == 'int':
            if x[1].__class__ is not int:
                raise Unsupported('symbolic float->int')
            f = bits2f(x[1])
            return int(f) & mask(b['bits'])
        if ka == 'float' and kb == 'float':
            return x
        if (ka == 'ptr' and kb == 'unsafeptr') or (ka == 'unsafeptr' and kb == 'ptr'):
            return x     # reinterpretation: the loaded value is re-typed at the load (see UnOp '*')
        if ka == 'string' and kb == 'slice':
            x = self.zs(st, x)
            eb = T[b['elem']]
            if eb['kind'] == 'int' and eb['bits'] == 8:
                cells = x[1]
                oid = self.newobj(st, ('A', cells), ('alloc', 'string->bytes ' + pos))
                self.alloc_event(st, len(cells), pos, 'bytes')
                return ('S', oid, (), 0, len(cells), len(cells))
            raise Unsupported('string -> []rune')
        if ka == 'slice' and kb == 'string':
            ea = T[a['elem']]
            if ea['kind'] == 'int' and ea['bits'] == 8:
                cells = self.slice_cells(st, x)
                self.alloc_event(st, len(cells), pos, 'string')
                self.add_cost(st, len(cells), pos)
                return ('Z', cells)
            if ea['kind'] == 'int' and ea['bits'] == 32:
                cells = self.slice_cells(st, x)
                out = ()
                for r in cells:
                    out += self.encode_rune(st, r)
                self.alloc_event(st, len(out), pos, 'string')
                return ('Z', out)
        if ka == 'int' and kb == 'string':
            # string(rune)
            r = x
            if a['bits'] < 32:
                r = self.convert(x, xt, self._i32tid(), st, pos)
            elif a['bits'] > 32:
                raise Unsupported('string(int64)')
            return ('Z', self.encode_rune(st, r))
        raise Unsupported('convert %s -> %s' % (a['str'], b['str']))

    def _i32tid(self):
        return self.prog.typebystr['int32']['id']

    def encode_rune(self, st, r):
        """UTF-8 encoding of a rune value (int32 pattern, unsigned normalised).
        Symbolic runes fork on the length class."""
        if r.__class__ is int:
            v = sgn(r, 32)
            if v < 0 or v > 0x10FFFF or 0xD800 <= v <= 0xDFFF:
                v = 0xFFFD
            return tuple(chr(v).encode('utf-8'))
        mk = self.store.mk
        # classes: <0x80, <0x800, surrogate/invalid -> FFFD, <0x10000, else
        neg = mk('slt', 0, r, 0, 32)
        c1 = self.store.band(self.store.bnot(neg), mk('ult', 0, r, 0x80))
        if self.take(st, c1):
            return (mk('trunc', 8, r),)
        c2 = mk('ult', 0, r, 0x800)
        if self.take(st, self.store.band(self.store.bnot(neg), c2)):
            return (mk('or', 8, 0xC0, mk('trunc', 8, mk('lshr', 32, r, 6))),
                    mk('or', 8, 0x80, mk('and', 8, mk('trunc', 8, r), 0x3F)))
        bad = self.store.bor(neg, self.store.bor(mk('ult', 0, 0x10FFFF, r),
                                                 self.store.band(mk('ule', 0, 0xD800, r), mk('ule', 0, r, 0xDFFF))))
        if self.take(st, bad):
            return (0xEF, 0xBF, 0xBD)
        if self.take(st, mk('ult', 0, r, 0x10000)):
            return (mk('or', 8, 0xE0, mk('trunc', 8, mk('lshr', 32, r, 12))),
                    mk('or', 8, 0x80, mk('and', 8, mk('trunc', 8, mk('lshr', 32, r, 6)), 0x3F)),
                    mk('or', 8, 0x80, mk('and', 8, mk('trunc', 8, r), 0x3F)))
        return (mk('or', 8, 0xF0, mk('trunc', 8, mk('lshr', 32, r, 18))),
                mk('or', 8, 0x80, mk('and', 8, mk('trunc', 8, mk('lshr', 32, r, 12)), 0x3F)),
                mk('or', 8, 0x80, mk('and', 8, mk('trunc', 8, mk('lshr', 32, r, 6)), 0x3F)),
                mk('or', 8, 0x80, mk('and', 8, mk('trunc', 8, r), 0x3F)))

    # ==================================================================
    # control: branching / forking
    def split(self, st, cond):
        """returns (pc_true, extras_true, pc_false, extras_false) feasibility-filtered;
        an infeasible side has pc None."""
        if cond is True:
            return st.pc, st.extras, None, None
        if cond is False:
            return None, None, st.pc, st.extras
        vs = cond.vars
        if (vs & (vs - 1)) == 0 and cond.tab is not None:
            m = cond.msk
            if m is None:
                m = cond.msk = self.store.truthmask(cond)
            v = self.store.vars[vs.bit_length() - 1]
            pt = self.mdd.and_byte(st.pc, v.order, m)
            pf = self.mdd.and_byte(st.pc, v.order, FULL & ~m)
            st.lastj = v.order
            return pt, st.extras, pf, st.extras
        ncond = self.store.bnot(cond)
        if self.lazy_forks and cond.hard:
            # kernel mode: do not ask the solver whether each side is feasible (these are the hard
            # queries); an infeasible path only yields a vacuously true obligation later
            return st.pc, st.extras + (cond,), st.pc, st.extras + (ncond,)
        rt = self.solver.check(st.pc, st.extras, (cond,), st.raw)
        rf = self.solver.check(st.pc, st.extras, (ncond,), st.raw)
        if rt == 'unknown' or rf == 'unknown':
            st.inexact = True
        pt = st.pc if rt != 'unsat' else None
        pf = st.pc if rf != 'unsat' else None
        et = st.extras + (cond,) if pt is not None and rf != 'unsat' else st.extras
        ef = st.extras + (ncond,) if pf is not None and rt != 'unsat' else st.extras
        return pt, et, pf, ef

    def take(self, st, cond):
        """Branch inside an instruction: if both outcomes are feasible, the false
        side is forked off to re-execute the current instruction later; returns
        the outcome this state continues with."""
        if cond is True:
            return True
        if cond is False:
            return False
        pt, et, pf, ef = self.split(st, cond)
        if pt is None and pf is None:
            self.kill(st)
            raise _Dead()
        if pf is None:
            st.pc, st.extras = pt, et
            return True
        if pt is None:
            st.pc, st.extras = pf, ef
            return False
        # both feasible: fork; the sibling re-executes the instruction with the
        # decision recorded so that it takes the other side
        other = st.fork()
        other.pc, other.extras = pf, ef
        self.stats['forks'] += 1
        self.pending_forks.append(other)
        st.pc, st.extras = pt, et
        return True

    def require(self, st, cond, what, pos):
        """runtime check: cond must hold, otherwise panic. Returns True if this
        state continues (cond holds on it)."""
        if cond is True:
            return True
        if cond is False:
            self.panic(st, what, pos)
            return False
        pt, et, pf, ef = self.split(st, cond)
        if pf is not None:
            bad = st.fork()
            bad.pc, bad.extras = pf, ef
            self.panic(bad, what, pos)
        if pt is None:
            self.kill(st)
            return False
        st.pc, st.extras = pt, et
        return True

    def panic(self, st, what, pos):
        st.status = 'panic'
        st.result = (what, pos)
        self.finish(st)

    def kill(self, st):
        st.status = 'dead'

    def finish(self, st):
        """record a terminal state (merging identical outcomes)"""
        if st.pc is None:
            return
        st.frames = []
        self.stats['terminals'] += 1
        rkey = self.canon_value(st, st.result) if st.status == 'ok' else st.result
        key = (st.status, rkey, st.extras, st.flags, st.inexact, st.nondet, tuple([r.get_id() for r in st.raw]))
        e = self.terminals.get(key)
        if e is None:
            self.terminals[key] = st
        else:
            e.pc = self.mdd.or_(e.pc, st.pc)

    # ==================================================================
    # canonical form for merging
    def canon_values(self, st, values, loose=False, want_queue=False):
        """canonical (allocation-order independent) form of a list of values and
        of the heap reachable from them. loose: symbolic scalars are replaced by a
        wildcard (used to find states that differ only in symbolic values)."""
        ren = {}
        queue = []
        limit = self.static_limit
        dirty = st.dirty

        def cid(o):
            if o is None:
                return None
            if o < limit and o not in dirty:
                return -o
            r = ren.get(o)
            if r is None:
                r = ren[o] = len(ren) + 1
                queue.append(o)
            return r

        def cv(v):
            if v.__class__ is not tuple:
                if loose and v.__class__ is Term:
                    return ('?', v.w)
                return v
            if not v:
                return v
            tag = v[0]
            if tag == 'P':
                return ('P', cid(v[1]), v[2])
            if tag == 'S':
                return ('S', cid(v[1]), v[2], v[3], v[4], v[5])
            if tag == 'Z':
                if loose:
                    return ('Z', tuple([('?', 8) if x.__class__ is Term else x for x in v[1]]))
                return v
            if tag == 'D':
                if loose and v[1].__class__ is Term:
                    return ('D', ('?', 64))
                return v
            if tag == 'ZA':
                return ('ZA', cid(v[1]), v[2], v[3], v[4])
            if tag == 'A' and len(v[1]) > 48:
                # buffers of scalars: the canonical form does not depend on the object renaming, so it is
                # memoised by identity of the (immutable) cell tuple
                cells = v[1]
                ent = self._bigcanon.get((id(cells), loose))
                if ent is not None and ent[0] is cells:
                    if ent[1] is not None:
                        return ent[1]
                else:
                    flat = True
                    for x in cells:
                        if x.__class__ is tuple:
                            flat = False
                            break
                    if flat:
                        r = ('A', tuple([('?', x.w) if x.__class__ is Term else x for x in cells])) if loose else v
                    else:
                        r = None
                    if len(self._bigcanon) > 2048:
                        self._bigcanon.clear()
                    self._bigcanon[(id(cells), loose)] = (cells, r)
                    if r is not None:
                        return r
            if tag == 'T' or tag == 'A' or tag == 'U':
                return (tag, tuple([cv(x) for x in v[1]]))
            if tag == 'I':
                return ('I', v[1], cv(v[2]))
            if tag == 'F':
                return ('F', v[1], tuple([cv(x) for x in v[2]]))
            if tag == 'M':
                return ('M', cid(v[1]))
            if tag == 'MAP':
                return ('MAP', tuple([(cv(k), cv(x)) for k, x in v[1]]))
            if tag == 'POOL':
                return ('POOL', tuple([cv(x) for x in v[1]]))
            if tag == 'B' or tag == 'ADEC':
                return v
            if tag == 'R':
                if v[1] == 'maprange':
                    return ('R', v[1], tuple([(cv(k), cv(x)) for k, x in v[2]]), v[3])
                return ('R', v[1], cv(('Z', v[2])), v[3])
            raise Unsupported('canon of %r' % (tag,))
        out = [cv(v) for v in values]
        heap = st.heap
        i = 0
        while i < len(queue):
            out.append(cv(heap[queue[i]]))
            i += 1
        if want_queue:
            return tuple(out), queue
        return tuple(out)

    def canon_value(self, st, v):
        return self.canon_values(st, [v])

    def _roots(self, st):
        shape = []
        values = []
        for fr in st.frames:
            env = fr.env
            names = sorted(env)
            shape.append((fr.fn.name, fr.block.index, fr.idx, fr.retname, tuple(names), len(fr.defers) if fr.defers else 0))
            for k in names:
                values.append(env[k])
            if fr.defers:
                for callee, args in fr.defers:
                    values.append(callee)
                    values.extend(args)
        return tuple(shape), values

    def state_key(self, st):
        shape, values = self._roots(st)
        return (shape, self.canon_values(st, values), st.extras, st.flags, st.inexact, st.nondet, tuple([r.get_id() for r in st.raw]))

    def loose_key(self, st):
        shape, values = self._roots(st)
        cv, queue = self.canon_values(st, values, loose=True, want_queue=True)
        return (shape, cv, st.extras, st.flags, st.inexact, st.nondet, tuple([r.get_id() for r in st.raw])), queue

    # ------------------------------------------------------------------
    def _project(self, node, j):
        """over-approximate set of values byte j takes in the set `node`"""
        seen = set()
        acc = 0
        stack = [node]
        while stack:
            n = stack.pop()
            if n is TRUE or n.idx < j:
                return FULL       # a path on which byte j is unconstrained
            if n.id in seen:
                continue
            seen.add(n.id)
            if n.idx == j:
                for m, c in n.edges:
                    acc |= m
            else:
                for m, c in n.edges:
                    stack.append(c)
        return acc

    def _merge_cond(self, e, st):
        """if the path conditions of e and st are U /\ (byte j in M) and U /\ (byte j not in M)
        for one byte j, return (j, M) else None"""
        pa, pb = e.pc, st.pc
        if pa is TRUE or pb is TRUE or pa is None or pb is None:
            return None
        U = None
        for j in (st.lastj, e.lastj):
            if j is None:
                continue
            ma = self._project(pa, j)
            if ma == FULL or ma == 0:
                continue
            if U is None:
                U = self.mdd.or_(pa, pb)
            if self.mdd.and_byte(U, j, ma) is pa and self.mdd.and_byte(U, j, FULL & ~ma) is pb:
                return j, ma
            if st.lastj == e.lastj:
                break
        return None

    def _merge_value(self, a, b, phi):
        if a is b:
            return a
        ca = a.__class__
        if ca is not tuple:
            if ca is Term or b.__class__ is Term:
                w = a.w if ca is Term else b.w
                return self.store.ite(phi, a, b, w)
            return a   # equal concrete scalars (guaranteed by the loose key)
        tag = a[0]
        if tag in ('T', 'A', 'U'):
            return (tag, tuple([self._merge_value(x, y, phi) for x, y in zip(a[1], b[1])]))
        if tag == 'Z':
            return ('Z', tuple([self._merge_value(x, y, phi) for x, y in zip(a[1], b[1])]))
        if tag == 'D':
            return ('D', self._merge_value(a[1], b[1], phi))
        if tag == 'I':
            return ('I', a[1], self._merge_value(a[2], b[2], phi))
        if tag == 'F':
            return ('F', a[1], tuple([self._merge_value(x, y, phi) for x, y in zip(a[2], b[2])]))
        if tag == 'MAP':
            return ('MAP', tuple([(self._merge_value(k1, k2, phi), self._merge_value(x, y, phi)) for (k1, x), (k2, y) in zip(a[1], b[1])]))
        if tag == 'POOL':
            return ('POOL', tuple([self._merge_value(x, y, phi) for x, y in zip(a[1], b[1])]))
        if tag == 'R' and a[1] == 'maprange':
            return ('R', a[1], tuple([(self._merge_value(k1, k2, phi), self._merge_value(x, y, phi)) for (k1, x), (k2, y) in zip(a[2], b[2])]), a[3])
        return a   # pointers / slices / maps: identical up to renaming

    def _ite_merge(self, e, qe, st, qs):
        """merge st into e (same loose key): differing symbolic values become ite terms"""
        mc = self._merge_cond(e, st)
        if mc is None:
            return False
        order, ma = mc
        bv = None
        for v in self.store.vars:
            if v.kind == 'byte' and v.order == order:
                bv = v
                break
        cells = tuple(bool((ma >> i) & 1) for i in range(256))
        tid = self.store.consttab(cells, 0)
        self._keep_tabs.append(cells)
        var_t = self.store._mk('var', 8, (bv.idx,), bv.bit)
        phi = self.store.mk('select', 0, tid, var_t)
        for fe, fs in zip(e.frames, st.frames):
            env = fe.env
            senv = fs.env
            for k in env:
                a = env[k]
                b = senv[k]
                if a is not b:
                    env[k] = self._merge_value(a, b, phi)
            if fe.defers:
                fe.defers = [(ca, tuple(self._merge_value(x, y, phi) for x, y in zip(aa, ab)))
                             for (ca, aa), (cb, ab) in zip(fe.defers, fs.defers)]
        for oe, os_ in zip(qe, qs):
            a = e.heap[oe]
            b = st.heap[os_]
            if a is not b:
                e.heap[oe] = self._merge_value(a, b, phi)
        e.pc = self.mdd.or_(e.pc, st.pc)
        return True

    # ==================================================================
    # running
    def run(self, st):
        """explore from st until all paths are terminal; returns list of terminal states"""
        self.terminals = {}
        self.pending = {}
        self.loose = {}
        self._keep_tabs = []
        self.heapq = []
        self.seq = 0
        self.pending_forks = []
        self._advance(st)
        while self.heapq:
            if self.deadline and time.time() > self.deadline:
                raise TimeoutError('executor deadline')
            pr, _, key = heapq.heappop(self.heapq)
            s = self.pending.pop(key, None)
            if s is None:
                continue
            lk = s.lkey
            if lk is not None:
                # forget the merge candidate entry of a state that starts running (bounds memory)
                ents = self.loose.get(lk)
                if ents is not None:
                    ents[:] = [en for en in ents if en[1] is not s]
                    if not ents:
                        del self.loose[lk]
                s.lkey = None
            self._advance(s, True)
        return list(self.terminals.values())

    def _enqueue(self, st):
        key = self.state_key(st)
        e = self.pending.get(key)
        if e is not None:
            e.pc = self.mdd.or_(e.pc, st.pc)
            self.stats['merges'] += 1
            return
        if self.ite_merging:
            lkey, queue = self.loose_key(st)
            ents = self.loose.get(lkey)
            if ents is None:
                ents = self.loose[lkey] = []
            merged = True
            absorbed = False
            while merged:
                merged = False
                for i, (okey, ost, oqueue) in enumerate(ents):
                    if ost is st or self.pending.get(okey) is not ost:
                        continue
                    if self._ite_merge(ost, oqueue, st, queue):
                        # ost absorbed st: re-key it and try to merge it further
                        del self.pending[okey]
                        del ents[i]
                        self.stats['ite_merges'] = self.stats.get('ite_merges', 0) + 1
                        st, queue = ost, oqueue
                        key = self.state_key(st)
                        absorbed = True
                        merged = True
                        break
            ents[:] = [en for en in ents if self.pending.get(en[0]) is en[1]][-5:]
            e2 = self.pending.get(key)
            if e2 is not None and e2 is not st:
                e2.pc = self.mdd.or_(e2.pc, st.pc)
                self.stats['merges'] += 1
                return
            ents.append((key, st, queue))
            st.lkey = lkey
        self.pending[key] = st
        fr = st.frames[-1]
        pr = (st.pc.idx, -len(st.frames), fr.block.rpo)
        self.seq += 1
        heapq.heappush(self.heapq, (pr, self.seq, key))
        self.stats['states'] += 1
        if self.stats['states'] > self.max_states:
            raise MemoryError('state cap exceeded')

    def _advance(self, st, popped=False):
        """run st (and the forks it spawns) until each reaches a merge point or terminates"""
        work = [st]
        while work:
            s = work.pop()
            try:
                self._run_to_merge(s, popped)
                popped = False
            except _Dead:
                pass
            except Unsupported as e:
                s.status = 'unsupported'
                s.result = str(e)
                self.finish(s)
            if self.pending_forks:
                work.extend(self.pending_forks)
                self.pending_forks = []

    def _run_to_merge(self, st, first):
        while True:
            if st.status is not None:
                return
            fr = st.frames[-1]
            b = fr.block
            if not first and ((fr.idx == 0 and b.ismerge) or self._returned):
                self._returned = False
                self._enqueue(st)
                return
            self._returned = False
            first = False
            self.stats['blocks'] += 1
            instrs = b.instrs
            n = len(instrs)
            while fr.idx < n:
                ins = instrs[fr.idx]
                r = self.step(st, fr, ins)
                if r is not None:
                    break  # control transferred (jump / call / return / terminal)
                fr.idx += 1
            else:
                raise Unsupported('fell off block end in %s' % fr.fn.name)
            if st.status is not None:
                return

    def goto(self, st, fr, target):
        """transfer to successor block index `target` of the current block"""
        fn = fr.fn
        src = fr.block
        nb = fn.blocks[target]
        env = fr.env
        newenv = {}
        for v in nb.livein:
            newenv[v] = env[v]
        if nb.phis:
            pos = nb.predpos[src.index]
            for name, edges in nb.phis:
                o = edges[pos]
                if o[0] == K_VAR:
                    newenv[name] = env[o[1]]
                elif o[0] == K_CONST:
                    newenv[name] = o[1]
                else:
                    newenv[name] = self.val(st, fr, o)
        fr.env = newenv
        fr.prev = src.index
        fr.block = nb
        fr.idx = 0

    def val(self, st, fr, o):
        k = o[0]
        if k == K_VAR:
            return fr.env[o[1]]
        if k == K_CONST:
            return o[1]
        if k == K_GLOBAL:
            return ('P', self.globals[o[1]], ())
        if k == K_FUNC:
            return ('F', o[1], ())
        if k == K_BUILTIN:
            return ('B', o[1])
        raise Unsupported('operand kind')

    # ------------------------------------------------------------------
    def step(self, st, fr, ins):
        """execute one instruction; returns None to continue with the next one,
        or True when control was transferred."""
        self.stats['instrs'] += 1
        op = ins['op']
        env = fr.env
        val = self.val
        if op == 'BinOp':
            x = val(st, fr, ins['x'])
            y = val(st, fr, ins['y'])
            r = self.binop(ins['tok'], x, y, ins['xt'], ins['yt'], ins['type'], st, ins['pos'])
            if st.status is not None:
                return True
            env[ins['name']] = r
            return None
        if op == 'If':
            c = val(st, fr, ins['cond'])
            succs = fr.block.succs
            if c is True:
                self.goto(st, fr, succs[0])
                return True
            if c is False:
                self.goto(st, fr, succs[1])
                return True
            if c.__class__ is tuple and c[0] == 'RAW':
                # condition given directly as an integer-arithmetic formula (exact-rational float model)
                other = st.fork()
                other.raw = other.raw + c[2] + (z3.Not(c[1]),)
                self.goto(other, other.frames[-1], succs[1])
                self.pending_forks.append(other)
                self.stats['forks'] += 1
                st.raw = st.raw + c[2] + (c[1],)
                self.goto(st, fr, succs[0])
                return True
            pt, et, pf, ef = self.split(st, c)
            if pt is not None and pf is not None:
                other = st.fork()
                other.pc, other.extras = pf, ef
                ofr = other.frames[-1]
                self.goto(other, ofr, succs[1])
                self.pending_forks.append(other)
                self.stats['forks'] += 1
                st.pc, st.extras = pt, et
                self.goto(st, fr, succs[0])
            elif pt is not None:
                st.pc, st.extras = pt, et
                self.goto(st, fr, succs[0])
            elif pf is not None:
                st.pc, st.extras = pf, ef
                self.goto(st, fr, succs[1])
            else:
                self.kill(st)
            return True
        if op == 'Jump':
            self.goto(st, fr, fr.block.succs[0])
            return True
        if op == 'UnOp':
            tok = ins['tok']
            x = val(st, fr, ins['x'])
            if tok == '*':
                r = self.load(st, x, ins['pos'])
                if st.status is not None:
                    return True
                if r.__class__ is tuple and r and r[0] in ('SEL', 'ITE'):
                    r = self.resolve_sel(r, ins['type'])
                if r.__class__ is tuple and r and r[0] == 'S' and self.prog.types[ins['type']]['kind'] == 'string':
                    # a []byte header read as a string header (unsafe zero-copy conversion)
                    r = ('ZA', r[1], r[2], r[3], r[4]) if r[1] is not None else EMPTYSTR
                env[ins['name']] = r
                return None
            t = self.prog.types[ins['xt']]
            if tok == '!':
                env[ins['name']] = self.store.bnot(x)
                return None
            if tok == '-':
                if t['kind'] == 'float':
                    if x[1].__class__ is tuple and x[1][0] == 'FX':
                        env[ins['name']] = self.fx.neg(x)
                        return None
                    if x[1].__class__ is int:
                        env[ins['name']] = ('D', x[1] ^ (1 << 63))
                    else:
                        env[ins['name']] = ('D', self.store.mk('xor', 64, x[1], 1 << 63))
                    return None
                env[ins['name']] = self.store.mk('neg', t['bits'], x)
                return None
            if tok == '^':
                env[ins['name']] = self.store.mk('not', t['bits'], x)
                return None
            raise Unsupported('unop ' + tok)
        if op == 'IndexAddr':
            x = val(st, fr, ins['x'])
            i = self.widen_index(val(st, fr, ins['index']), ins.get('it'))
            t = self.prog.types[ins['xt']]
            if t['kind'] == 'slice':
                if x[1] is None and False:
                    pass
                ln = x[4]
                ok = self.inrange(i, ln, ins, st)
                if not ok:
                    return True
                if i.__class__ is Term:
                    i = self.concretise(st, i, 'index')
                env[ins['name']] = ('P', x[1], x[2] + (x[3] + i,))
                return None
            # pointer to array
            if x is None:
                self.panic(st, 'nil dereference', ins['pos'])
                return True
            at = self.prog.types[t['elem']]
            ln = at['len']
            if i.__class__ is Term:
                if not self.inrange(i, ln, ins, st):
                    return True
                env[ins['name']] = ('P', x[1], x[2] + (i,))
                return None
            if i >= ln:   # unsigned compare covers negatives
                self.panic(st, 'index out of range', ins['pos'])
                return True
            env[ins['name']] = ('P', x[1], x[2] + (i,))
            return None
        if op == 'Phi':
            raise Unsupported('phi in body')
        if op == 'Store':
            a = val(st, fr, ins['addr'])
            v = val(st, fr, ins['val'])
            self.store_(st, a, v, ins['pos'])
            return True if st.status is not None else None
        if op == 'Call':
            return self.call(st, fr, ins)
        if op == 'Extract':
            x = val(st, fr, ins['x'])
            env[ins['name']] = x[1][ins['index']]
            return None
        if op == 'Return':
            return self.do_return(st, fr, [val(st, fr, o) for o in ins['results']])
        if op == 'FieldAddr':
            x = val(st, fr, ins['x'])
            if x is None:
                self.panic(st, 'nil dereference', ins['pos'])
                return True
            env[ins['name']] = ('P', x[1], x[2] + (ins['field'],))
            return None
        if op == 'Field':
            x = val(st, fr, ins['x'])
            env[ins['name']] = x[1][ins['field']]
            return None
        if op == 'Convert':
            x = val(st, fr, ins['x'])
            env[ins['name']] = self.convert(x, ins['xt'], ins['type'], st, ins['pos'])
            return None
        if op == 'ChangeType' or op == 'ChangeInterface':
            env[ins['name']] = val(st, fr, ins['x'])
            return None
        if op == 'Slice':
            return self.do_slice(st, fr, ins)
        if op == 'Alloc':
            z = self.prog.zero(ins['elem'])
            oid = self.newobj(st, z, ('alloc', ins['pos'], ins.get('comment', '')))
            if ins.get('heap') and self.monitor_alloc:
                self.alloc_event(st, 1, ins['pos'], 'alloc')
            if ins.get('heap') and self.cost_mode:
                self.add_cost(st, self.elemsize(ins['elem']), ins['pos'])
            env[ins['name']] = ('P', oid, ())
            return None
        if op == 'MakeInterface':
            x = val(st, fr, ins['x'])
            if self.monitor_alloc and self.prog.types[ins['xt']]['kind'] not in ('ptr', 'map', 'func', 'chan', 'iface', 'nil'):
                self.alloc_event(st, 1, ins['pos'], 'box')
            env[ins['name']] = ('I', self.prog.types[ins['xt']]['str'], x)
            return None
        if op == 'TypeAssert':
            return self.typeassert(st, fr, ins)
        if op == 'MakeSlice':
            ln = val(st, fr, ins['len'])
            cp = val(st, fr, ins['cap'])
            if self.cost_mode and cp.__class__ is Term and ln.__class__ is int and ln == 0:
                # capacity given by a symbolic size hint: virtual capacity, nothing materialised
                esz = self.elemsize(self.prog.types[ins['type']]['elem'])
                self.add_cost(st, self.store.mk('mul', 64, cp, esz), fr.fn.short + ':make-slice')
                oid = self.newobj(st, ('A', ()), ('alloc', ins['pos'], 'makeslice'))
                env[ins['name']] = ('S', oid, (), 0, 0, cp)
                return None
            if ln.__class__ is Term:
                ln = self.concretise(st, ln, 'make len')
            if cp.__class__ is Term:
                cp = self.concretise(st, cp, 'make cap')
            sl, sc = sgn(ln, 64), sgn(cp, 64)
            if sl < 0 or sc < sl:
                self.panic(st, 'makeslice: len out of range', ins['pos'])
                return True
            if sc > 1 << 24:
                raise Unsupported('huge make %d' % sc)
            et = self.prog.types[ins['type']]['elem']
            z = self.prog.zero(et)
            oid = self.newobj(st, ('A', (z,) * sc), ('alloc', ins['pos'], 'makeslice'))
            if not ins.get('append_of_make'):
                self.alloc_event(st, sc, ins['pos'], 'makeslice')
                if self.cost_mode:
                    self.add_cost(st, sc * self.elemsize(et), fr.fn.short + ':make-slice')
            env[ins['name']] = ('S', oid, (), 0, sl, sc)
            return None
        if op == 'Index':
            x = self.zs(st, val(st, fr, ins['x']))
            i = self.widen_index(val(st, fr, ins['index']), ins.get('it'))
            t = self.prog.types[ins['xt']]
            cells = x[1]
            if i.__class__ is Term:
                if not self.inrange(i, len(cells), ins, st):
                    return True
                r = self.select_cells(cells, i)
                env[ins['name']] = self.resolve_sel(r, ins['type'])
                return None
            if i >= len(cells):
                self.panic(st, 'index out of range', ins['pos'])
                return True
            env[ins['name']] = cells[i]
            return None
        if op == 'MakeClosure':
            f = ins['fn']
            if self.monitor_alloc and ins['bindings']:
                self.alloc_event(st, 1, ins['pos'], 'closure')
            env[ins['name']] = ('F', f[1], tuple(val(st, fr, b) for b in ins['bindings']))
            return None
        if op == 'Defer':
            c = ins['call']
            if 'invoke' in c:
                raise Unsupported('defer invoke')
            callee = val(st, fr, c['callee'])
            args = [val(st, fr, a) for a in c['args']]
            if fr.defers is None:
                fr.defers = []
            fr.defers.append((callee, tuple(args)))
            return None
        if op == 'RunDefers':
            if fr.defers:
                callee, args = fr.defers.pop()
                # re-execute RunDefers after the deferred call returns
                return self.enter(st, fr, callee, list(args), None, rerun=True)
            return None
        if op == 'MakeMap':
            oid = self.newobj(st, ('MAP', ()), ('alloc', ins['pos'], 'makemap'))
            r = ins.get('reserve')
            rv = val(st, fr, r) if r is not None else 0
            self.alloc_event(st, rv, ins['pos'], 'makemap')
            if self.cost_mode:
                self.add_cost(st, self.store.mk('add', 64, self.store.mk('mul', 64, rv, 48), 48), fr.fn.short + ':make-map')
            env[ins['name']] = ('M', oid)
            return None
        if op == 'MapUpdate':
            return self.mapupdate(st, fr, ins)
        if op == 'Lookup':
            return self.lookup(st, fr, ins)
        if op == 'Range':
            x = val(st, fr, ins['x'])
            t = self.prog.types[ins['xt']]
            if t['kind'] == 'map':
                entries = st.heap[x[1]][1] if x is not None else ()
                env[ins['name']] = ('R', 'maprange', entries, 0)
            elif t['kind'] == 'string':
                env[ins['name']] = ('R', 'strrange', x[1], 0)
            else:
                raise Unsupported('range over ' + t['kind'])
            return None
        if op == 'Next':
            it = val(st, fr, ins['iter'])
            kind, seq, i = it[1], it[2], it[3]
            if kind == 'maprange':
                # iterator state is kept in the env under the iterator's name
                itname = ins['iter'][1]
                if i >= len(seq):
                    env[ins['name']] = ('U', (False, None, None))
                else:
                    k, v = seq[i]
                    env[itname] = ('R', kind, seq, i + 1)
                    env[ins['name']] = ('U', (True, k, v))
                return None
            raise Unsupported('range over string')
        if op == 'Panic':
            self.panic(st, 'explicit panic', ins['pos'])
            return True
        if op == 'SliceToArrayPointer':
            raise Unsupported('SliceToArrayPointer')
        raise Unsupported('instruction ' + op)

    # ------------------------------------------------------------------
    def widen_index(self, i, it):
        if it is None:
            return i
        t = self.prog.types[it]
        w = t.get('bits', 64)
        if w == 64:
            return i
        if i.__class__ is int:
            return (sgn(i, w) & mask(64)) if t.get('signed') else i
        if t.get('signed'):
            return self.store.mk('sext', 64, i, w)
        return self.store.mk('zext', 64, i)

    def resolve_sel(self, r, tid):
        t = self.prog.types[tid]
        if r[0] == 'SEL':
            w = 0 if t['kind'] == 'bool' else t.get('bits', 64)
            cells, _ = self.store.tabs[r[1]]
            self.store.tabs[r[1]] = (cells, w)
            return self.store.mk('select', w, r[1], r[2])
        cells, idx = r[1], r[2]
        k = t['kind']
        if k == 'struct':
            # array of structs indexed symbolically: one selection per field
            fields = []
            for fi, f in enumerate(t['fields']):
                sub = tuple(c[1][fi] for c in cells)
                fields.append(self.resolve_sel(self.select_cells(sub, idx), f['type']))
            return ('T', tuple(fields))
        if k not in ('int', 'bool'):
            raise Unsupported('symbolic index into non-scalar array')
        w = 0 if k == 'bool' else t['bits']
        res = cells[-1]
        for j in range(len(cells) - 2, -1, -1):
            res = self.store.ite(self.store.mk('eq', 0, idx, j), cells[j], res, w)
        return res

    def inrange(self, i, ln, ins, st):
        """bounds check 0 <= i < ln (i unsigned-normalised 64-bit)."""
        if i.__class__ is int:
            if i >= ln:
                self.panic(st, 'index out of range [%d] with length %d' % (sgn(i, 64), ln), ins['pos'])
                return False
            return True
        # symbolic
        tab = i.tab
        if tab is not None:
            ok = True
            for v in tab:
                if v >= ln:
                    ok = False
                    break
            if ok:
                return True
        c = self.store.mk('ult', 0, i, ln)
        return self.require(st, c, 'index out of range', ins['pos'])

    def concretise(self, st, t, what):
        """enumerate feasible values of term t under the path condition and fork
        one state per value (this state continues with the first)."""
        self.stats['concretise'] += 1
        vals = []
        if t.tab is not None:
            vs = t.vars
            v = self.store.vars[vs.bit_length() - 1]
            # group byte values by term value
            groups = {}
            for b in range(256):
                groups.setdefault(t.tab[b], 0)
                groups[t.tab[b]] |= 1 << b
            alts = []
            for value, m in groups.items():
                pc = self.mdd.and_byte(st.pc, v.order, m)
                if pc is not None:
                    alts.append((value, pc, st.extras))
        elif self.lazy_forks and t.hard and self._small_range(t) is not None:
            lo, hi = self._small_range(t)
            alts = [(v, st.pc, st.extras + (self.store.mk('eq', 0, t, v),)) for v in range(lo, hi + 1)]
        else:
            alts = []
            blocked = []
            while True:
                r = self.solver.check(st.pc, st.extras, tuple(blocked), st.raw)
                if r != 'sat':
                    if r == 'unknown':
                        st.inexact = True
                    break
                value = self.solver.model_value(t)
                eqc = self.store.mk('eq', 0, t, value)
                alts.append((value, st.pc, st.extras + (eqc,)))
                blocked.append(self.store.mk('ne', 0, t, value))
                if len(alts) > self.concretise_cap:
                    raise Unsupported('concretisation cap exceeded for %s' % what)
        if not alts:
            self.kill(st)
            raise _Dead()
        for value, pc, extras in alts[1:]:
            o = st.fork()
            o.pc, o.extras = pc, extras
            o.conc = st.conc + ((t, value),)
            self.pending_forks.append(o)
            self.stats['forks'] += 1
        value, pc, extras = alts[0]
        st.pc, st.extras = pc, extras
        st.conc = st.conc + ((t, value),)
        return value

    # NOTE: forks created inside an instruction re-execute that instruction from
    # its start; `concretise` therefore records its decision in st.nondet and the
    # callers below consult it first.
    def _small_range(self, t):
        try:
            _, lo, hi, _ = self.solver.lia.conv(t)
        except Exception:
            return None
        if hi - lo <= 8:
            return lo, hi
        return None

    def conc(self, st, t, what):
        if t.__class__ is not Term:
            return t
        for tt, v in reversed(st.conc):
            if tt is t:
                return v
        return self.concretise(st, t, what)

    # ------------------------------------------------------------------
    def slice_cells(self, st, s):
        if s[1] is None:
            return ()
        arr = self.getpath(st.heap[s[1]], s[2])
        return arr[1][s[3]:s[3] + s[4]]

    def do_slice(self, st, fr, ins):
        x = self.val(st, fr, ins['x'])
        T = self.prog.types
        t = T[ins['xt']]
        lo = self.val(st, fr, ins['low']) if ins['low'] is not None else 0
        hi = self.val(st, fr, ins['high']) if ins['high'] is not None else None
        mx = self.val(st, fr, ins['max']) if ins['max'] is not None else None
        lo = self.conc(st, lo, 'slice low')
        if hi is not None:
            hi = self.conc(st, hi, 'slice high')
        if mx is not None:
            mx = self.conc(st, mx, 'slice max')
        if t['kind'] == 'string':
            x = self.zs(st, x)
            cells = x[1]
            if hi is None:
                hi = len(cells)
            if not (lo <= hi <= len(cells)):
                self.panic(st, 'slice bounds out of range [%d:%d] with length %d' % (sgn(lo, 64), sgn(hi, 64), len(cells)), ins['pos'])
                return True
            fr.env[ins['name']] = ('Z', cells[lo:hi])
            return None
        if t['kind'] == 'slice':
            obj, path, off, ln, cp = x[1], x[2], x[3], x[4], x[5]
            if hi is None:
                hi = ln
            if cp.__class__ is Term:
                if mx is not None or not (lo <= hi <= ln):
                    raise Unsupported('slicing beyond the length of a slice with symbolic capacity')
                if obj is None:
                    fr.env[ins['name']] = NILSLICE
                    return None
                if lo != 0:
                    raise Unsupported('re-slicing a symbolic-capacity slice from a non-zero offset')
                fr.env[ins['name']] = ('S', obj, path, off, hi, cp)
                return None
            if mx is None:
                mx = cp
            if not (lo <= hi <= mx <= cp):
                self.panic(st, 'slice bounds out of range [%d:%d:%d] with capacity %d' % (sgn(lo, 64), sgn(hi, 64), sgn(mx, 64), cp), ins['pos'])
                return True
            if obj is None:
                fr.env[ins['name']] = NILSLICE
                return None
            fr.env[ins['name']] = ('S', obj, path, off + lo, hi - lo, mx - lo)
            return None
        if t['kind'] == 'ptr':
            if x is None:
                self.panic(st, 'nil dereference', ins['pos'])
                return True
            at = T[t['elem']]
            n = at['len']
            if hi is None:
                hi = n
            if mx is None:
                mx = n
            if not (lo <= hi <= mx <= n):
                self.panic(st, 'slice bounds out of range', ins['pos'])
                return True
            fr.env[ins['name']] = ('S', x[1], x[2], lo, hi - lo, mx - lo)
            return None
        raise Unsupported('slice of ' + t['kind'])

    def typeassert(self, st, fr, ins):
        x = self.val(st, fr, ins['x'])
        at = self.prog.types[ins['asserted']]
        if at['kind'] == 'iface':
            if at.get('nmethods', 0) == 0:
                ok = x is not None
                v = x
            else:
                raise Unsupported('type assert to non-empty interface')
        else:
            ok = x is not None and x[1] == at['str']
            v = x[2] if ok else self.prog.zero(ins['asserted'])
        if ins.get('commaok'):
            fr.env[ins['name']] = ('U', (v, ok))
            return None
        if not ok:
            self.panic(st, 'interface conversion', ins['pos'])
            return True
        fr.env[ins['name']] = v
        return None

    def mapupdate(self, st, fr, ins):
        m = self.val(st, fr, ins['map'])
        k = self.zs(st, self.val(st, fr, ins['key']))
        v = self.val(st, fr, ins['value'])
        if m is None:
            self.panic(st, 'assignment to entry in nil map', ins['pos'])
            return True
        entries = st.heap[m[1]][1]
        if k.__class__ is not tuple or k[0] != 'Z':
            raise Unsupported('map with non-string key')
        for i, (ek, ev) in enumerate(entries):
            c = self.bytes_eq(ek[1], k[1])
            if self.take(st, c):
                entries = entries[:i] + ((ek, v),) + entries[i + 1:]
                st.heap[m[1]] = ('MAP', entries)
                return None
        st.heap[m[1]] = ('MAP', entries + ((k, v),))
        return None

    def lookup(self, st, fr, ins):
        m = self.val(st, fr, ins['x'])
        k = self.zs(st, self.val(st, fr, ins['index']))
        t = self.prog.types[ins['xt']]
        if t['kind'] != 'map':
            raise Unsupported('lookup in string')
        entries = st.heap[m[1]][1] if m is not None else ()
        found = None
        for ek, ev in entries:
            if self.take(st, self.bytes_eq(ek[1], k[1])):
                found = (ev,)
                break
        zero = self.prog.zero(t['elem'])
        if ins.get('commaok'):
            fr.env[ins['name']] = ('U', (found[0] if found else zero, found is not None))
        else:
            fr.env[ins['name']] = found[0] if found else zero
        return None

    # ------------------------------------------------------------------
    def add_cost(self, st, amount, site):
        """C20: bytes requested from the allocator on this path (int or 64-bit term), with the sites
        whose amount is symbolic (depends on a size hint)"""
        if not self.cost_mode:
            return
        tot, syms = st.heap[self.cost_oid][1]
        if amount.__class__ is Term:
            syms = ('U', syms[1] + (('U', (('Z', tuple(site.encode())), amount)),))
        tot = self.store.mk('add', 64, tot, amount) if (tot.__class__ is Term or amount.__class__ is Term) else (tot + amount) & mask(64)
        st.heap[self.cost_oid] = ('A', (tot, syms))
        if self.cost_oid not in st.dirty:
            st.dirty = st.dirty | {self.cost_oid}

    def elemsize(self, tid):
        t = self.prog.types[tid]
        k = t['kind']
        if k == 'int' or k == 'float':
            return max(1, t.get('bits', 64) // 8)
        if k == 'bool':
            return 1
        if k in ('iface', 'string'):
            return 16
        if k == 'slice':
            return 24
        if k == 'struct':
            return sum(self.elemsize(f['type']) for f in (t.get('fields') or [])) or 1
        if k == 'array':
            return self.elemsize(t['elem']) * t['len']
        return 8

    def alloc_event(self, st, size, pos, kind):
        """heap allocation monitor (C19). Active only while the harness has switched the watch on.
        Which source lines heap-allocate is taken from the compiler's own escape analysis
        (go build -gcflags=-m, see driver.gc_escapes); growth of a slice beyond its capacity,
        map creation and fmt calls always allocate."""
        if not self.monitor_alloc or ('watch', '') not in st.flags:
            return
        line = pos.rsplit(':', 1)
        key = pos
        esc = self.escape_lines
        if kind in ('makeslice', 'bytes', 'closure', 'box', 'alloc'):
            if size.__class__ is int and size == 0 and kind in ('makeslice', 'bytes'):
                return
            if esc is not None and key not in esc:
                return
        elif kind == 'string':
            if size.__class__ is int:
                if size == 0:
                    return
                if size <= 32 and esc is not None and key not in esc:
                    return      # non-escaping conversion of <= 32 bytes uses a stack buffer
        self.event(st, 'alloc', '%s %s' % (kind, pos.replace('/repo/', '')))

    # ------------------------------------------------------------------
    def call(self, st, fr, ins):
        c = ins['call']
        args = [self.val(st, fr, a) for a in c['args']]
        if 'invoke' in c:
            recv = self.val(st, fr, c['recv'])
            if recv is None:
                self.panic(st, 'nil interface invoke', ins['pos'])
                return True
            ms = self.prog.methods.get(recv[1])
            if ms is None or c['invoke'] not in ms:
                # built-in error types
                if c['invoke'] == 'Error':
                    fr.env[ins['name']] = ('Z', tuple(b'<error>'))
                    return None
                raise Unsupported('invoke %s on %s' % (c['invoke'], recv[1]))
            callee = ('F', ms[c['invoke']], ())
            args = [recv[2]] + args
        else:
            callee = self.val(st, fr, c['callee'])
        return self.enter(st, fr, callee, args, ins)

    def enter(self, st, fr, callee, args, ins, rerun=False):
        if callee is None:
            self.panic(st, 'nil func call', ins['pos'] if ins else '')
            return True
        if callee[0] == 'B':
            r = self.builtin(st, fr, callee[1], args, ins)
            if st.status is not None:
                return True
            if ins is not None and 'name' in ins:
                fr.env[ins['name']] = r
            return None
        name = callee[1]
        h = self.hooks.get(name)
        if h is not None:
            r = h(self, st, fr, ins, args)
            if st.status is not None:
                return True
            if r is _TRANSFER:
                return True
            if ins is not None and 'name' in ins:
                fr.env[ins['name']] = r
            return None
        fn = self.prog.funcs.get(name)
        if fn is None or fn.extern:
            r = self.extern(st, fr, name, args, ins)
            if st.status is not None:
                return True
            if ins is not None and 'name' in ins:
                fr.env[ins['name']] = r
            return None
        if len(st.frames) > 5000:
            raise Unsupported('call depth')
        # prune the caller's environment to what is needed after the call
        if ins is not None and '_keep' in ins and not rerun:
            keep = ins['_keep']
            env = fr.env
            fr.env = {k: env[k] for k in keep if k in env}
        self.entered.add(fn.name)
        nf = Frame()
        nf.fn = fn
        nf.block = fn.blocks[0]
        nf.idx = 0
        nf.prev = -1
        nf.defers = None
        nf.retname = (ins['name'] if ins is not None and 'name' in ins else None, rerun)
        env = {}
        for (pn, pt), a in zip(fn.params, args):
            env[pn] = a
        for (pn, pt), a in zip(fn.freevars, callee[2]):
            env[pn] = a
        lv = nf.block.livein
        nf.env = {k: v for k, v in env.items() if k in lv} if lv is not None else env
        if not rerun:
            fr.idx += 1  # resume after the call
        st.frames.append(nf)
        return True

    def do_return(self, st, fr, results):
        st.frames.pop()
        if len(results) == 1:
            r = results[0]
        else:
            r = ('U', tuple(results))
        if not st.frames:
            st.status = 'ok'
            st.result = r
            self.finish(st)
            return True
        caller = st.frames[-1]
        name, rerun = fr.retname
        if name is not None:
            caller.env[name] = r
        if fr.fn.nreturns > 1:
            self._returned = True   # returning from a function with several exits is a merge point
        return True

    # ------------------------------------------------------------------
    def builtin(self, st, fr, name, args, ins):
        if name == 'len':
            x = args[0]
            if x is None:
                return 0
            if x[0] == 'S':
                return x[4]
            if x[0] == 'Z':
                return len(x[1])
            if x[0] == 'ZA':
                return x[4]
            if x[0] == 'M':
                return len(st.heap[x[1]][1])
            raise Unsupported('len of %r' % (x[0],))
        if name == 'cap':
            x = args[0]
            return x[5]
        if name == 'append':
            return self.do_append(st, args[0], args[1], ins)
        if name == 'copy':
            dst, src = args
            src = self.zs(st, src)
            if src[0] == 'Z':
                cells = src[1]
            else:
                cells = self.slice_cells(st, src)
            n = min(dst[4], len(cells))
            if n:
                self.write_cells(st, dst, 0, cells[:n], ins['pos'])
            return n
        if name == 'ssa:wrapnilchk':
            if args[0] is None:
                self.panic(st, 'nil receiver', ins['pos'])
            return args[0]
        if name in ('print', 'println'):
            return None
        raise Unsupported('builtin ' + name)

    def write_cells(self, st, s, at, cells, pos):
        oid, path, off = s[1], s[2], s[3]
        if oid in self.readonly and 'zz_verif' not in pos:     # (a harness may refill its own input buffer)
            self.event(st, 'write-to-input', '%s %s' % (self.objtag.get(oid), pos))
        if oid < self.static_limit and oid not in st.dirty:
            st.dirty = st.dirty | {oid}
        arr = self.getpath(st.heap[oid], path)
        old = arr[1]
        a = off + at
        new = ('A', old[:a] + tuple(cells) + old[a + len(cells):])
        st.heap[oid] = self.setpath(st.heap[oid], path, new)

    def do_append(self, st, s, t, ins):
        t = self.zs(st, t)
        if t is None:
            add = ()
        elif t[0] == 'Z':
            add = t[1]
        else:
            add = self.slice_cells(st, t)
        if not add:
            return s
        ln, cp = s[4], s[5]
        need = ln + len(add)
        if cp.__class__ is Term:
            # virtual capacity from a size hint
            if self.take(st, self.store.mk('ule', 0, need, cp)):
                arr = self.getpath(st.heap[s[1]], s[2])
                cells = arr[1][:s[3] + ln] + tuple(add)
                st.heap[s[1]] = self.setpath(st.heap[s[1]], s[2], ('A', cells))
                return ('S', s[1], s[2], s[3], need, cp)
            old = self.slice_cells(st, s)
            newcap = 2 * need
            et = self.prog.types[ins['type']]['elem']
            cells = tuple(old) + tuple(add) + (self.prog.zero(et),) * (newcap - need)
            oid = self.newobj(st, ('A', cells), ('alloc', ins['pos'], 'append'))
            self.add_cost(st, newcap * self.elemsize(et), ins['pos'])
            return ('S', oid, (), 0, need, newcap)
        if need <= cp and s[1] is not None:
            self.write_cells(st, s, ln, add, ins['pos'])
            return ('S', s[1], s[2], s[3], need, cp)
        # reallocate: Go's growth policy is not part of any property; capacity
        # model: double or exactly needed, whichever is larger
        newcap = max(need, 2 * cp)
        old = self.slice_cells(st, s)
        et = self.prog.types[ins['type']]['elem'] if ins is not None else None
        z = self.prog.zero(et) if et is not None else 0
        cells = tuple(old) + tuple(add) + (z,) * (newcap - need)
        oid = self.newobj(st, ('A', cells), ('alloc', ins['pos'], 'append'))
        self.alloc_event(st, newcap, ins['pos'], 'append-grow')
        if self.cost_mode:
            self.add_cost(st, newcap * (self.elemsize(et) if et is not None else 1), ins['pos'])
        return ('S', oid, (), 0, need, newcap)

    # ------------------------------------------------------------------
    def extern(self, st, fr, name, args, ins):
        pos = ins['pos'] if ins else ''
        if name == 'fmt.Errorf':
            oid = self.newobj(st, ('T', (args[0],)), ('error', pos))
            self.alloc_event(st, 1, pos, 'fmt.Errorf')
            self.add_cost(st, 64, pos)
            return ('I', '*fmt.wrapError', ('P', oid, ()))
        if name == 'fmt.Sprintf':
            self.alloc_event(st, 1, pos, 'fmt.Sprintf')
            return ('Z', tuple(b'<sprintf>'))
        if name == 'math.Float64frombits':
            return ('D', args[0])
        if name == 'math.Float64bits':
            return args[0][1]
        if name == '(*sync.Pool).Get':
            return self.pool_get(st, args[0], pos)
        if name == '(*sync.Pool).Put':
            return self.pool_put(st, args[0], args[1], pos)
        if name.endswith('.init'):
            return None
        if name in ('bytes.IndexByte', 'strings.IndexByte'):
            # first index of byte c, or -1 (forks on the position)
            b = self.zs(st, args[0])
            cells = b[1] if b[0] == 'Z' else self.slice_cells(st, b)
            c = args[1]
            for i, x in enumerate(cells):
                if x.__class__ is int and c.__class__ is int:
                    hit = x == c
                else:
                    hit = self.store.mk('eq', 0, x, c)
                if self.take(st, hit):
                    return i
            return mask(64)   # -1
        if name in ('bytes.Equal', 'bytes.HasPrefix', 'strings.HasPrefix'):
            a = self.zs(st, args[0])
            b = self.zs(st, args[1])
            ca = a[1] if a[0] == 'Z' else self.slice_cells(st, a)
            cb = b[1] if b[0] == 'Z' else self.slice_cells(st, b)
            if name.endswith('HasPrefix'):
                if len(ca) < len(cb):
                    return False
                ca = ca[:len(cb)]
            return self.bytes_eq(tuple(ca), tuple(cb))
        raise Unsupported('extern call ' + name)

    def pool_get(self, st, pool, pos):
        # the Pool struct's first field is abused as storage: ('POOL', items)
        v = self.load(st, pool)
        items = v[1][0]
        if items.__class__ is tuple and items and items[0] == 'POOL' and items[1]:
            lst = items[1]
            item = lst[-1]
            nv = ('T', (('POOL', lst[:-1]),) + v[1][1:])
            self.store_(st, pool, nv, pos)
            return item
        return None

    def pool_put(self, st, pool, x, pos):
        v = self.load(st, pool)
        items = v[1][0]
        lst = items[1] if (items.__class__ is tuple and items and items[0] == 'POOL') else ()
        nv = ('T', (('POOL', lst + (x,)),) + v[1][1:])
        self.store_(st, pool, nv, pos)
        return None

    # ==================================================================
    # package initialisation: executes the init functions concretely
    def initialise(self):
        st = State()
        st.frames = []
        st.heap = {}
        st.pc = TRUE
        st.extras = ()
        st.flags = frozenset()
        st.dirty = frozenset()
        st.status = None
        st.result = None
        st.inexact = False
        st.nondet = ()
        st.conc = ()
        st.lastj = None
        st.raw = ()
        for g, info in sorted(self.prog.globals.items()):
            z = self.prog.zero(info['type'])
            if info.get('foreign') and self.prog.types[info['type']]['kind'] == 'iface':
                eo = self.newobj(st, ('T', (('Z', tuple(g.encode())),)), ('error', g))
                z = ('I', '*errors.errorString', ('P', eo, ()))
            oid = self.newobj(st, z, ('global', g))
            self.globals[g] = oid
        self.static_limit = 0
        for name in self.prog.initorder:
            fn = self.prog.funcs.get(name)
            if fn is None or fn.extern:
                continue
            if name.rsplit('.', 1)[0] in NO_INIT_PKGS:
                continue     # helper packages whose bodies are exported but whose package state is never used
            s2 = st.fork()
            s2.heap = st.heap
            fr = Frame()
            fr.fn = fn
            fr.block = fn.blocks[0]
            fr.idx = 0
            fr.env = {}
            fr.defers = None
            fr.retname = (None, False)
            fr.prev = -1
            s2.frames = [fr]
            self.terminals = {}
            self.pending = {}
            self.heapq = []
            self.pending_forks = []
            self.seq = 0
            terms = self.run_init(s2)
            st.heap = terms.heap
        self.baseheap = st.heap
        self.static_limit = self.nextobj
        self._init_done = True
        return st

    def run_init(self, st):
        # init code is straight-line/concrete: no merging needed
        while st.status is None:
            fr = st.frames[-1]
            b = fr.block
            instrs = b.instrs
            while fr.idx < len(instrs):
                ins = instrs[fr.idx]
                try:
                    r = self.step(st, fr, ins)
                except Unsupported as e:
                    # opaque: give the result a None value and go on
                    if 'name' in ins:
                        fr.env[ins['name']] = None
                    r = None
                if r is not None:
                    break
                fr.idx += 1
            if st.status == 'ok':
                break
            if st.status is not None:
                raise RuntimeError('init failed: %s %s' % (st.status, st.result))
        return st

    def fresh_state(self):
        st = State()
        st.frames = []
        st.heap = dict(self.baseheap)
        st.pc = TRUE
        st.extras = ()
        st.flags = frozenset()
        st.dirty = frozenset()
        st.status = None
        st.result = None
        st.inexact = False
        st.nondet = ()
        st.conc = ()
        st.lastj = None
        st.raw = ()
        st.lkey = None
        if self.cost_mode:
            self.cost_oid = self.newobj(st, ('A', (0, ('U', ()))), ('cost', ''))
        return st

    def freeze(self):
        """call after the driver created its input objects: everything allocated
        so far is 'static' (contents excluded from merge keys until written)"""
        self.static_limit = self.nextobj

    def start(self, st, fname, args):
        fn = self.prog.funcs[fname]
        self.entered.add(fn.name)
        fr = Frame()
        fr.fn = fn
        fr.block = fn.blocks[0]
        fr.idx = 0
        fr.env = {pn: a for (pn, pt), a in zip(fn.params, args)}
        fr.defers = None
        fr.retname = (None, False)
        fr.prev = -1
        st.frames = [fr]
        return st


class _Dead(Exception):
    pass


_TRANSFER = object()
