"""C04 tier 4: the glue of ParseJSONFloatPrefix (order of the tiers, the !trunc guard, the
truncated-mantissa re-check) against the tiers' contracts.

atof64exact runs for real in the exact-rational model (its acceptance conditions are the code's).
eiselLemire64 is replaced by its contract (established by tier 3): a free `ok`, and when ok the
result is rnd(man*10^exp10). The multi-precision fallback (decimal.set + floatBits) is replaced
by *its* contract, which is an ASSUMPTION of this tier (not established here): it returns
rnd(exact literal value) and reports overflow exactly when that value rounds beyond MaxFloat64.

Float values flowing through the glue are descriptors
    ('FX', 'rnd', t, mul, div, neg)   (from fxmodel)           rnd(t*mul/div)
    ('GR', 'el', man_term, exp10, neg, okvar)                  rnd(man*10^exp10)
    ('GR', 'dec', literal cells)                               rnd(exact literal)
The float comparison f2 == fUp of two 'el' descriptors yields a fresh boolean c; on the path
where c holds, both ends of [man, man+1]*10^exp10 round to the same float, hence (monotonicity
of rounding) so does every value in between - that is the only place where a meta-argument is used.

Final obligation: the returned float is the correctly rounded exact literal value, i.e. there is
no (exponent field, fraction) that is the correct rounding of the descriptor's quantity q but not
of the literal value v. For ef in the feasible range this is one integer-arithmetic query each.
"""
import z3

from .terms import Term
from .fpspec import wrong_formula_q


class Glue:
    def __init__(self, ses):
        self.ses = ses
        self.ex = ses.ex
        self.lia = ses.ex.solver.lia
        self.sandwich = {}     # bool var term id -> (lo descriptor, hi descriptor)
        self.nvars = 0
        self.exact_overflow = False

    def install(self, FP):
        ex = self.ex
        if not self.exact_overflow:
            ex.hooks[FP + '.eiselLemire64'] = self.h_el
            ex.hooks['(*' + FP + '.decimal).set'] = self.h_set
            ex.hooks['(*' + FP + '.decimal).floatBits'] = self.h_floatbits
        ex.hooks[FP + '.vAssertGlueValue'] = self.h_assert_value
        ex.hooks[FP + '.vAssertScanValue'] = self.h_assert_scan
        ex.hooks[FP + '.vAssertShift'] = self.h_assert_shift
        ex.hooks[FP + '.vAssertSetValue'] = self.h_assert_set
        ex.hooks[FP + '.vAssertRoundedInt'] = self.h_assert_roundint
        ex.hooks[FP + '.vGlueOverflows'] = self.h_overflows
        ex.glue = self

    def fresh_bool(self, name):
        self.nvars += 1
        return self.ex.store.newvar('%s%d' % (name, self.nvars), 0, 'free')

    # -- stubs ------------------------------------------------------------
    def h_el(self, ex, st, fr, ins, args):
        man, e10, neg = args
        ok = self.fresh_bool('elok')
        st.nondet = st.nondet   # (not part of the replay script: the real function decides natively)
        from .terms import sgn
        return ('U', (('D', ('GR', 'el', man, sgn(e10, 64) if e10.__class__ is int else e10, neg, ok)), ok))

    def h_set(self, ex, st, fr, ins, args):
        d, lit = args
        cells = tuple(ex.slice_cells(st, lit))
        # remember the literal in the decimal object (field 0 is the digit array; replaced wholesale)
        v = ex.load(st, d)
        ex.store_(st, d, ('T', (('GRLIT', cells),) + v[1][1:]))
        return True

    def h_floatbits(self, ex, st, fr, ins, args):
        v = ex.load(st, args[0])
        cells = v[1][0][1]
        ovf = self.ovf_var(cells)
        return ('U', (('GR', 'dec', cells), ovf))

    def ovf_var(self, cells):
        key = ('glueovf', cells)
        t = self.ses.nondet_vars.get(key)
        if t is None:
            t = self.fresh_bool('decovf')
            self.ses.nondet_vars[key] = t
        return t

    def h_overflows(self, ex, st, fr, ins, args):
        cells = tuple(ex.slice_cells(st, args[0]))
        if self.exact_overflow:
            # tier 5: the real fallback is running; decide "literal >= 2^1024 - 2^970" exactly
            vnum, vden, vneg, vside = self.literal_value(cells, st)
            thr = (1 << 1024) - (1 << 970)
            f = vnum >= thr * vden
            rt = self.lia.check(st.pc, st.extras, (), raw=list(st.raw) + vside + [f])
            rf = self.lia.check(st.pc, st.extras, (), raw=list(st.raw) + vside + [z3.Not(f)])
            if rt == 'unsat':
                return False
            if rf == 'unsat':
                return True
            return ('RAW', f, tuple(vside))
        return self.ovf_var(cells)

    # float equality of two descriptors (called from Executor.floatop)
    def feq(self, st, a, b):
        if a == b:
            return True
        c = self.fresh_bool('feq')
        self.sandwich[c.id] = (a, b)
        return c

    # -- exact value of a literal with symbolic digits ------------------------
    def known(self, st, c):
        """the set of values the path condition leaves for byte cell c (a 256-bit mask)"""
        if c.__class__ is not Term:
            return 1 << c
        if st is None or c.op != 'var':
            return (1 << 256) - 1
        v = self.ex.store.vars[c.args[0]]
        if v.kind != 'byte':
            return (1 << 256) - 1
        return self.ex._project(st.pc, v.order) if st.pc is not None and st.pc.idx >= 0 else (1 << 256) - 1

    def literal_value(self, cells, st=None):
        """(num expr, den const, negative?, side). The skeleton ('-', '.', 'e'/'E', exponent sign and
        digits) must be determined - either concrete or pinned by the path condition"""
        lia = self.lia
        DIG = sum(1 << d for d in range(48, 58))
        EE = (1 << ord('e')) | (1 << ord('E'))
        fixed = []
        for c in cells:
            if c.__class__ is Term:
                m = self.known(st, c)
                if m & (m - 1) == 0 and m:
                    fixed.append(m.bit_length() - 1)
                elif m & ~EE == 0:
                    fixed.append(ord('e'))
                elif m & ~DIG == 0:
                    fixed.append(c)
                else:
                    raise NotImplementedError('literal byte not determined by the path')
            else:
                fixed.append(c)
        cells = tuple(fixed)
        side = []
        i = 0
        n = len(cells)
        neg = False
        if n and cells[0] == ord('-'):
            neg = True
            i = 1
        num = z3.IntVal(0)
        fracdigits = 0
        seen_dot = False
        while i < n:
            c = cells[i]
            if c.__class__ is not Term and c in (ord('e'), ord('E')):
                break
            if c.__class__ is not Term and c == ord('.'):
                seen_dot = True
                i += 1
                continue
            if c.__class__ is Term:
                e, lo, hi, sd = lia.conv(c)
                side += list(sd)
                d = e - 48
            else:
                d = z3.IntVal(c - 48)
            num = num * 10 + d
            if seen_dot:
                fracdigits += 1
            i += 1
        e10 = 0
        if i < n:
            i += 1
            sgn_ = 1
            if cells[i] == ord('+'):
                i += 1
            elif cells[i] == ord('-'):
                sgn_ = -1
                i += 1
            ev = 0
            while i < n:
                if cells[i].__class__ is Term:
                    raise NotImplementedError('symbolic exponent digit in a glue template')
                ev = ev * 10 + (cells[i] - 48)
                i += 1
            e10 = sgn_ * ev
        e10 -= fracdigits
        return num * (10 ** max(e10, 0)), 10 ** max(-e10, 0), neg, side

    def quantity(self, desc):
        """(num expr, den const, neg, side, upper bound of num/den) of the un-rounded quantity of a descriptor"""
        lia = self.lia
        if desc[0] == 'FX':
            fx = desc
            if fx[1] == 'int':
                e, lo, hi, side = lia.conv(fx[2])
                return e, 1, fx[3], list(side), hi
            if fx[1] == 'rnd':
                e, lo, hi, side = lia.conv(fx[2])
                return e * fx[3], fx[4], fx[5], list(side), hi * fx[3] // fx[4] + 1
            raise NotImplementedError('double rounding in the glue')
        if desc[1] == 'el':
            man, e10, neg = desc[2], desc[3], desc[4]
            if e10.__class__ is Term:
                raise NotImplementedError('symbolic decimal exponent in the glue')
            if man.__class__ is Term:
                e, lo, hi, side = lia.conv(man)
            else:
                e, lo, hi, side = z3.IntVal(man), man, man, ()
            A, B = 10 ** max(e10, 0), 10 ** max(-e10, 0)
            return e * A, B, neg, list(side), hi * A // B + 1
        raise NotImplementedError(desc[1])

    def h_assert_scan(self, ex, st, fr, ins, args):
        """tier 1 interface contract, stated semantically: with v the exact value of the literal,
        !trunc => mant*10^exp == |v| ;  trunc => mant*10^exp <= |v| < (mant+1)*10^exp ; neg = sign"""
        from .terms import sgn
        lit, mant, exp, neg, trunc, idv = args
        aid = bytes(idv[1]).decode()
        rec = self.ses.asserts.setdefault(aid, [0, 0])
        if exp.__class__ is Term or trunc.__class__ is Term or neg.__class__ is Term:
            rec[0] += 0
            self.ses.reach['C04.scan-value-skipped(symbolic exponent)'] = self.ses.reach.get('C04.scan-value-skipped(symbolic exponent)', 0) + 1
            return None
        cells = tuple(ex.slice_cells(st, lit))
        try:
            vnum, vden, vneg, vside = self.literal_value(cells, st)
        except NotImplementedError:
            self.ses.reach['C04.scan-value-skipped(undetermined skeleton)'] = self.ses.reach.get('C04.scan-value-skipped(undetermined skeleton)', 0) + 1
            return None
        lia = self.lia
        e10 = sgn(exp, 64)
        if mant.__class__ is Term:
            m, _, _, mside = lia.conv(mant)
        else:
            m, mside = z3.IntVal(mant), ()
        if abs(e10) > 5000:
            # a reported exponent this far out may be a capped one (the scanner stops accumulating exponent
            # digits); the conversion tiers decline it (Eisel-Lemire's table ends at -348/+347, tier 3) and the
            # fallback re-reads the literal. What must hold is that the literal's true value is out of the
            # tiers' range on the same side: e > 347 => |v| >= m*10^348, e < -348 => |v| < (m+1)*10^-348.
            # (Implied by the exact contract, so an exact scanner never fails it; an earlier version of this
            # check skipped such exponents altogether, which hid fix f8cd401's defect from this tier.)
            if e10 > 0:
                bad = z3.And(m != 0, vnum < m * (10 ** 348) * vden)
            else:
                bad = vnum * (10 ** 348) >= (m + 1) * vden
            A = B = None
        else:
            A, B = 10 ** max(e10, 0), 10 ** max(-e10, 0)
        # compare m*A/B with vnum/vden
        if A is None:
            pass
        elif trunc:
            # a truncated scan with mantissa 0 carries no exponent (the code leaves exp = 0); the
            # tiers never use it: rnd(0) differs from rnd(1*10^exp), so the re-check sends it to the fallback
            lhs = m * A * vden
            rhs = vnum * B
            bad = z3.And(m != 0, z3.Or(lhs > rhs, (m + 1) * A * vden <= rhs))
        else:
            lhs = m * A * vden
            rhs = vnum * B
            bad = lhs != rhs
        bad = z3.Or(bad, z3.BoolVal(bool(neg) != vneg))
        r = lia.check(st.pc, st.extras, (), raw=list(st.raw) + list(vside) + list(mside) + [bad])
        self.ses.obligations = getattr(self.ses, 'obligations', 0) + 1
        if r == 'unsat':
            rec[0] += 1
            return None
        badst = st.fork()
        badst.status = 'assertfail'
        badst.result = (aid, ins['pos'])
        if r == 'sat':
            assign = lia.model_assign()
            for v in ex.store.vars:
                if v.kind == 'byte':
                    badst.pc = ex.mdd.and_byte(badst.pc, v.order, 1 << (assign.get(v.idx, 0) & 255))
        else:
            badst.inexact = True
        if badst.pc is not None:
            ex.finish(badst)
            rec[1] += 1
        return None

    def h_assert_shift(self, ex, st, fr, ins, args):
        """tier 5a: after = before * 2^(+-k) exactly, normalised, not truncated"""
        from .terms import sgn
        before, after, k, left, idv = args
        aid = bytes(idv[1]).decode()
        rec = self.ses.asserts.setdefault(aid, [0, 0])
        lia = self.lia

        def dec(ptr):
            v = ex.load(st, ptr)
            d, nd, dp, neg, trunc = v[1]
            if nd.__class__ is Term or dp.__class__ is Term:
                raise NotImplementedError('symbolic digit count')
            nd, dp = sgn(nd, 64), sgn(dp, 64)
            side = []
            num = z3.IntVal(0)
            digs = []
            for i in range(nd):
                c = d[1][i]
                if c.__class__ is Term:
                    e, lo, hi, sd = lia.conv(c)
                    side += list(sd)
                else:
                    e = z3.IntVal(c)
                digs.append(e)
                num = num * 10 + (e - 48)
            return num, nd, dp, trunc, digs, side
        bnum, bnd, bdp, _, _, bside = dec(before)
        anum, and_, adp, atrunc, adigs, aside = dec(after)
        k = sgn(k, 64)
        # value = num * 10^(dp-nd)
        eb, ea = bdp - bnd, adp - and_
        lhs = anum * (10 ** max(ea, 0)) * (10 ** max(-eb, 0))
        rhs = bnum * (10 ** max(eb, 0)) * (10 ** max(-ea, 0))
        if left:
            rhs = rhs * (2 ** k)
        else:
            lhs = lhs * (2 ** k)
        bad = [lhs != rhs]
        for e in adigs:
            bad.append(z3.Or(e < 48, e > 57))
        if adigs:
            bad.append(adigs[-1] == 48)
        if atrunc.__class__ is Term:
            tz, _, _, ts = lia.conv(atrunc)
            aside += list(ts)
            bad.append(tz)
        elif atrunc:
            bad.append(z3.BoolVal(True))
        base = list(st.raw) + bside + aside + [z3.Or(*bad)]
        lia.prefer_fresh = True     # long definitional chains: the preprocessing pipeline decides them, the incremental core stalls
        try:
            r = lia.check(st.pc, st.extras, (), raw=base)
        finally:
            lia.prefer_fresh = False
        if r == 'unknown' and st.nondet:
            # complete case split on the first unknown digit: 10 digit values + "anything else"
            dz = lia.conv(st.nondet[0])
            base2 = base + list(dz[3])
            r = 'unsat'
            for cs in [dz[0] == v for v in range(48, 58)] + [z3.Or(dz[0] < 48, dz[0] > 57)]:
                r2 = lia.check(st.pc, st.extras, (), raw=base2 + [cs])
                if r2 != 'unsat':
                    r = r2
                    break
        self.ses.obligations = getattr(self.ses, 'obligations', 0) + 1
        if r == 'unsat':
            rec[0] += 1
            return None
        badst = st.fork()
        badst.status = 'assertfail'
        badst.result = (aid, ins['pos'])
        if r == 'sat':
            assign = lia.model_assign()
            for t in st.nondet:
                badst.extras = badst.extras + (ex.store.mk('eq', 0, t, ex.store.evaluate(t, assign)),)
        else:
            badst.inexact = True
        ex.finish(badst)
        rec[1] += 1
        return None

    def h_assert_set(self, ex, st, fr, ins, args):
        """tier 5c: the decimal left by decimal.set denotes the literal (exactly, or within the last
        digit's bracket when trunc), keeps the sign and has no leading zero digit"""
        from .terms import sgn
        lit, dptr, idv = args
        aid = bytes(idv[1]).decode()
        rec = self.ses.asserts.setdefault(aid, [0, 0])
        lia = self.lia
        cells = tuple(ex.slice_cells(st, lit))
        vnum, vden, vneg, vside = self.literal_value(cells, st)
        v = ex.load(st, dptr)
        d, nd, dp, neg, trunc = v[1]
        if nd.__class__ is Term or dp.__class__ is Term:
            raise NotImplementedError('symbolic digit count / decimal point')
        nd, dp = sgn(nd, 64), sgn(dp, 64)
        side = list(vside)
        D = z3.IntVal(0)
        bad = []
        for i in range(nd):
            c = d[1][i]
            if c.__class__ is Term:
                e_, lo, hi, sd = lia.conv(c)
                side += list(sd)
                bad.append(z3.Or(e_ < 48, e_ > 57))
                if i == 0:
                    bad.append(e_ == 48)
            else:
                e_ = z3.IntVal(c)
                if c < 48 or c > 57 or (i == 0 and c == 48):
                    bad.append(z3.BoolVal(True))
            D = D * 10 + (e_ - 48)
        e = dp - nd
        sl, sr = 10 ** max(e, 0) * vden, 10 ** max(-e, 0)
        exact = D * sl == vnum * sr
        inside = z3.And(D * sl < vnum * sr, vnum * sr < (D + 1) * sl)
        if trunc.__class__ is Term:
            tz, _, _, ts = lia.conv(trunc)
            side += list(ts)
            bad.append(z3.If(tz, z3.Not(inside), z3.Not(exact)))
        else:
            bad.append(z3.Not(inside) if trunc else z3.Not(exact))
        if neg.__class__ is Term:
            nz, _, _, ns = lia.conv(neg)
            side += list(ns)
            bad.append(nz != z3.BoolVal(bool(vneg)))
        elif bool(neg) != bool(vneg):
            bad.append(z3.BoolVal(True))
        lia.prefer_fresh = True
        try:
            r = lia.check(st.pc, st.extras, (), raw=list(st.raw) + side + [z3.Or(*bad)])
        finally:
            lia.prefer_fresh = False
        self.ses.obligations = getattr(self.ses, 'obligations', 0) + 1
        if r == 'unsat':
            rec[0] += 1
            return None
        badst = st.fork()
        badst.status = 'assertfail'
        badst.result = (aid, ins['pos'])
        if r == 'sat':
            assign = lia.model_assign()
            for v in ex.store.vars:
                if v.kind == 'byte':
                    badst.pc = ex.mdd.and_byte(badst.pc, v.order, 1 << (assign.get(v.idx, 0) & 255))
        else:
            badst.inexact = True
        if badst.pc is not None:
            ex.finish(badst)
            rec[1] += 1
        return None

    # -- literals with symbolic exponent digits (tier 1b / 5c-b) ------------------
    def split_expo(self, cells, st):
        """(mantissa bytes (concrete), exponent sign (+1/-1), exponent digit cells) of a literal whose mantissa and
        skeleton are determined and whose exponent digits may be free"""
        out = []
        DIG = sum(1 << d for d in range(48, 58))
        for c in cells:
            if c.__class__ is Term:
                m = self.known(st, c)
                if m and m & (m - 1) == 0:
                    out.append(m.bit_length() - 1)
                elif m & ~DIG == 0:
                    out.append(c)
                else:
                    raise NotImplementedError('literal byte not determined by the path')
            else:
                out.append(c)
        k = None
        for i, c in enumerate(out):
            if c.__class__ is not Term and c in (ord('e'), ord('E')):
                k = i
                break
        if k is None or any(c.__class__ is Term for c in out[:k]):
            raise NotImplementedError('exponent template needs a concrete mantissa and an exponent part')
        mant = bytes(out[:k])
        j = k + 1
        sg = 1
        if j < len(out) and out[j] in (ord('+'), ord('-')):
            sg = -1 if out[j] == ord('-') else 1
            j += 1
        return mant, sg, out[j:]

    def _expo_sum(self, sg, ecells):
        lia = self.lia
        E = z3.IntVal(0)
        side = []
        for c in ecells:
            if c.__class__ is Term:
                e_, _, _, sd = lia.conv(c)
                side += list(sd)
                E = E * 10 + (e_ - 48)
            else:
                E = E * 10 + (c - 48)
        return sg * E, side

    @staticmethod
    def _mant_value(mant):
        """(numerator, fraction digits, negative) of the exponent-less mantissa literal"""
        neg = mant[:1] == b'-'
        body = mant[1:] if neg else mant
        ip, _, fp_ = body.partition(b'.')
        return int(ip + fp_ or b'0'), len(fp_), neg

    def _signed(self, t):
        lia = self.lia
        if t.__class__ is Term:
            e_, _, _, sd = lia.conv(t)
            return z3.If(e_ >= 2 ** 63, e_ - 2 ** 64, e_), list(sd)
        from .terms import sgn
        return z3.IntVal(sgn(t, 64)), []

    def _finish_obligation(self, ex, st, ins, aid, rec, r):
        self.ses.obligations = getattr(self.ses, 'obligations', 0) + 1
        if r == 'unsat':
            rec[0] += 1
            return None
        badst = st.fork()
        badst.status = 'assertfail'
        badst.result = (aid, ins['pos'])
        if r == 'sat':
            assign = self.lia.model_assign()
            for v in ex.store.vars:
                if v.kind == 'byte':
                    badst.pc = ex.mdd.and_byte(badst.pc, v.order, 1 << (assign.get(v.idx, 0) & 255))
        else:
            badst.inexact = True
        if badst.pc is not None:
            ex.finish(badst)
            rec[1] += 1
        return None

    def h_assert_scan_expo(self, ex, st, fr, ins, args):
        """the scanner's exponent for EVERY exponent digit string of the template: with c the (concrete) offset that
        makes mant*10^c the exponent-less mantissa, exp = s*E + c, or both lie beyond the fast tiers' table on the same side"""
        from .terms import sgn
        lit, mant, exp, neg, trunc, idv = args
        aid = bytes(idv[1]).decode()
        rec = self.ses.asserts.setdefault(aid, [0, 0])
        if mant.__class__ is Term or trunc.__class__ is Term or neg.__class__ is Term:
            raise NotImplementedError('exponent template with undetermined mantissa')
        mbytes, sg, ecells = self.split_expo(tuple(ex.slice_cells(st, lit)), st)
        num, frac, vneg = self._mant_value(mbytes)
        if bool(neg) != vneg:
            return self._finish_obligation(ex, st, ins, aid, rec, 'sat')
        if mant == 0:
            # nothing is required of the exponent of a zero mantissa (0*10^e = 0); with trunc the tiers re-check and fall back
            if num != 0 and not trunc:
                return self._finish_obligation(ex, st, ins, aid, rec, 'sat')
            rec[0] += 1
            return None
        # c: mant*10^c == num*10^-frac (or brackets it from below when truncated)
        c0 = None
        for c in range(-frac - 2, len(mbytes) + 2):
            a, b = mant * 10 ** max(c + frac, 0), num * 10 ** max(-(c + frac), 0)
            a1 = (mant + 1) * 10 ** max(c + frac, 0)
            if (a == b and not trunc) or (trunc and a <= b < a1):
                c0 = c
                break
        if c0 is None:
            return self._finish_obligation(ex, st, ins, aid, rec, 'sat')
        E, side = self._expo_sum(sg, ecells)
        es, side2 = self._signed(exp)
        want = E + c0
        good = z3.Or(es == want, z3.And(es > 347, want > 347), z3.And(es < -348, want < -348))
        r = self.lia.check(st.pc, st.extras, (), raw=list(st.raw) + side + side2 + [z3.Not(good)])
        return self._finish_obligation(ex, st, ins, aid, rec, r)

    def h_assert_set_expo(self, ex, st, fr, ins, args):
        """decimal.set's decimal point for EVERY exponent digit string of the template: dp = s*E + c with c the position
        of the point in the exponent-less mantissa, or both beyond floatBits' overflow (> 310) / underflow (< -330) exits"""
        from .terms import sgn
        lit, dptr, idv = args
        aid = bytes(idv[1]).decode()
        rec = self.ses.asserts.setdefault(aid, [0, 0])
        mbytes, sg, ecells = self.split_expo(tuple(ex.slice_cells(st, lit)), st)
        num, frac, vneg = self._mant_value(mbytes)
        v = ex.load(st, dptr)
        d, nd, dp, neg, trunc = v[1]
        if nd.__class__ is Term or trunc.__class__ is Term or neg.__class__ is Term:
            raise NotImplementedError('exponent template with undetermined digits')
        nd = sgn(nd, 64)
        if bool(neg) != vneg:
            return self._finish_obligation(ex, st, ins, aid, rec, 'sat')
        digs = [d[1][i] for i in range(nd)]
        if any(x.__class__ is Term for x in digs):
            raise NotImplementedError('exponent template with symbolic kept digits')
        if nd == 0:
            r = 'unsat' if num == 0 else 'sat'
            return self._finish_obligation(ex, st, ins, aid, rec, r)
        D = int(bytes(digs))
        c0 = None
        for c in range(-frac - 2, len(mbytes) + 2):
            # D * 10^(c-nd) == num * 10^-frac   (or brackets it when truncated)
            sh = c - nd + frac
            a, b = D * 10 ** max(sh, 0), num * 10 ** max(-sh, 0)
            a1 = (D + 1) * 10 ** max(sh, 0)
            if (a == b and not trunc) or (trunc and a < b < a1):
                c0 = c
                break
        if c0 is None or digs[0] == 48:
            return self._finish_obligation(ex, st, ins, aid, rec, 'sat')
        E, side = self._expo_sum(sg, ecells)
        ds, side2 = self._signed(dp)
        want = E + c0
        good = z3.Or(ds == want, z3.And(ds > 310, want > 310), z3.And(ds < -330, want < -330))
        r = self.lia.check(st.pc, st.extras, (), raw=list(st.raw) + side + side2 + [z3.Not(good)])
        return self._finish_obligation(ex, st, ins, aid, rec, r)

    def h_assert_halfway(self, ex, st, fr, ins, args):
        """tier 5f: the digit buffer (n digits) holds every exact halfway point of the binade with ulp 2^e2:
        the midpoint (2M+1)*2^(e2-1) has at most n significant decimal digits for every M the path allows.
        (With that, dropped non-zero digits always mean 'strictly above the kept prefix', which is what the
        truncation flag tells the rounding step.)"""
        from .terms import sgn
        n, man, e2, idv = args
        aid = bytes(idv[1]).decode()
        rec = self.ses.asserts.setdefault(aid, [0, 0])
        lia = self.lia
        if n.__class__ is Term or e2.__class__ is Term:
            raise NotImplementedError('symbolic buffer length / exponent')
        n, e2 = sgn(n, 64), sgn(e2, 64)
        m, _, _, mside = lia.conv(man)
        q = 1 - e2
        odd = 2 * m + 1
        # significant digits of odd * 2^(e2-1): odd*5^q (q > 0, no trailing zero: the product is odd) or odd*2^(-q)
        # without its trailing zeros (none are counted away here: an upper bound on the digit count suffices)
        val = odd * (5 ** q) if q > 0 else odd * (2 ** (-q))
        bad = val >= 10 ** n
        # a witness with odd M is preferred: a tie that loses digits is rounded down, which is wrong exactly when M is odd
        r = lia.check(st.pc, st.extras, (), raw=list(st.raw) + list(mside) + [bad, m % 2 == 1])
        if r != 'sat':
            r = lia.check(st.pc, st.extras, (), raw=list(st.raw) + list(mside) + [bad])
        self.ses.obligations = getattr(self.ses, 'obligations', 0) + 1
        if r == 'unsat':
            rec[0] += 1
            return None
        badst = st.fork()
        badst.status = 'assertfail'
        badst.result = (aid, ins['pos'])
        if r == 'sat':
            assign = lia.model_assign()
            for t in st.nondet:
                badst.extras = badst.extras + (ex.store.mk('eq', 0, t, ex.store.evaluate(t, assign)),)
        else:
            badst.inexact = True
        ex.finish(badst)
        rec[1] += 1
        return None

    def h_assert_roundint(self, ex, st, fr, ins, args):
        """tier 5d: n is the nearest integer (ties to even) of the decimal's value; with trunc every value
        strictly inside the last digit's bracket above the recorded one rounds to n"""
        from .terms import sgn
        aptr, n, idv = args
        aid = bytes(idv[1]).decode()
        rec = self.ses.asserts.setdefault(aid, [0, 0])
        lia = self.lia
        v = ex.load(st, aptr)
        d, nd, dp, neg, trunc = v[1]
        if nd.__class__ is Term or dp.__class__ is Term or trunc.__class__ is Term:
            raise NotImplementedError('symbolic digit count / decimal point / trunc')
        nd, dp = sgn(nd, 64), sgn(dp, 64)
        side = []
        D = z3.IntVal(0)
        for i in range(nd):
            c = d[1][i]
            if c.__class__ is Term:
                e_, lo, hi, sd = lia.conv(c)
                side += list(sd)
            else:
                e_ = z3.IntVal(c)
            D = D * 10 + (e_ - 48)
        if n.__class__ is Term:
            nz, _, _, ns = lia.conv(n)
            side += list(ns)
        else:
            nz = z3.IntVal(n)
        e = dp - nd
        # value = D*10^e ; compare 2*value with 2n-1 and 2n+1 after clearing the power of ten
        A, B = 10 ** max(e, 0), 10 ** max(-e, 0)
        V2 = 2 * D * A                 # 2*value*B
        lo2, hi2 = (2 * nz - 1) * B, (2 * nz + 1) * B
        if trunc:
            bad = z3.Or(lo2 > V2, V2 + 2 * A > hi2)     # value+ulp <= n+1/2, ulp = 10^e = A/B
        else:
            bad = z3.Or(lo2 > V2, V2 > hi2, z3.And(z3.Or(lo2 == V2, hi2 == V2), nz % 2 != 0))
        lia.prefer_fresh = True
        try:
            r = lia.check(st.pc, st.extras, (), raw=list(st.raw) + side + [bad])
        finally:
            lia.prefer_fresh = False
        self.ses.obligations = getattr(self.ses, 'obligations', 0) + 1
        if r == 'unsat':
            rec[0] += 1
            return None
        badst = st.fork()
        badst.status = 'assertfail'
        badst.result = (aid, ins['pos'])
        if r == 'sat':
            assign = lia.model_assign()
            for t in st.nondet:
                badst.extras = badst.extras + (ex.store.mk('eq', 0, t, ex.store.evaluate(t, assign)),)
        else:
            badst.inexact = True
        ex.finish(badst)
        rec[1] += 1
        return None

    # -- the obligation --------------------------------------------------------
    def h_assert_value(self, ex, st, fr, ins, args):
        lit, fval, idv = args
        aid = bytes(idv[1]).decode()
        rec = self.ses.asserts.setdefault(aid, [0, 0])
        cells = tuple(ex.slice_cells(st, lit))
        desc = fval[1] if fval.__class__ is tuple and fval[0] == 'D' else fval
        lia = self.lia
        vnum, vden, vneg, vside = self.literal_value(cells, st)
        results = []
        if desc.__class__ is tuple and desc[0] == 'GR' and desc[1] == 'dec':
            # the fallback's contract applies to the literal it was given: must be this literal
            results.append(('unsat' if desc[2] == cells else 'sat', None))
        elif desc.__class__ is tuple and desc[0] in ('GR', 'FX'):
            qnum, qden, qneg, qside, qhi = self.quantity(desc)
            base = list(st.raw) + vside + qside
            if qneg.__class__ is Term:
                nz, _, _, ns = lia.conv(qneg)
                base += list(ns)
                signbad = (nz != z3.BoolVal(vneg))
            else:
                signbad = z3.BoolVal(bool(qneg) != vneg)
            # sandwich: on this path some recorded comparison c holds with this descriptor as lower end
            hi_desc = None
            for e in st.extras:
                if e.__class__ is Term and e.op == 'var' and e.id in self.sandwich:
                    lo_d, hi_d = self.sandwich[e.id]
                    if lo_d == desc:
                        hi_desc = hi_d
            # quick exits
            same = lia.check(st.pc, st.extras, (), raw=base + [z3.Or(signbad, qnum * vden != vnum * qden)])
            if same == 'unsat':
                results.append(('unsat', None))
            elif hi_desc is not None:
                hnum, hden, _, hside, hhi = self.quantity(hi_desc)
                outside = z3.Or(signbad, vnum * qden < qnum * vden, vnum * hden > hnum * vden)
                r_out = lia.check(st.pc, st.extras, (), raw=base + hside + [outside])
                if r_out == 'unsat':
                    results.append(('unsat', 'sandwich'))
                else:
                    # the path assumed f2 == fUp; that is only possible when one float is the correct
                    # rounding of both ends. Look for a literal outside the bracket for which it is.
                    frac = lia.fresh('sf')
                    rng = [frac >= 0, frac < (1 << 52)]
                    top = max(hhi, 1)
                    verdict = ('unsat', 'sandwich-infeasible')
                    for ef in range(0, min(0x7FE, 1075 + top.bit_length() + 1) + 1):
                        both = [z3.Not(wrong_formula_q(qnum, qden, ef, frac)), z3.Not(wrong_formula_q(hnum, hden, ef, frac))]
                        r = lia.check(st.pc, st.extras, (), raw=base + hside + rng + both + [outside])
                        if r == 'sat':
                            verdict = ('sat', {'assign': lia.model_assign()})
                            break
                        if r == 'unknown':
                            verdict = ('unknown', None)
                    results.append(verdict)
            else:
                # is there a float that is the correct rounding of q but not of v ?
                frac = lia.fresh('gf')
                rng = [frac >= 0, frac < (1 << 52)]
                top = max(qhi, 1)
                hi_ef = min(0x7FE, 1075 + top.bit_length() + 1)
                lo_ef = 0
                found = False
                for ef in range(lo_ef, hi_ef + 1):
                    q_ok = z3.Not(wrong_formula_q(qnum, qden, ef, frac))
                    pre = lia.check(st.pc, st.extras, (), raw=base + rng + [q_ok])
                    if pre == 'unsat':
                        continue
                    r = lia.check(st.pc, st.extras, (), raw=base + rng + [q_ok, z3.Or(signbad, wrong_formula_q(vnum, vden, ef, frac))])
                    if r == 'sat':
                        results.append(('sat', {'assign': lia.model_assign()}))
                        found = True
                        break
                    results.append((r, None))
                if not found and not results:
                    results.append(('unsat', None))
        elif desc.__class__ is Term:
            # a bit pattern computed by the code itself (the fallback run for real, tier 5)
            from .fpspec import _decompose
            sign, efv, frac, cons = _decompose(lia, desc)
            _, blo, bhi, _ = lia.conv(desc)
            lo_ef, hi_ef = (blo >> 52) & 0x7FF, (bhi >> 52) & 0x7FF
            if (bhi >> 63) != (blo >> 63) or hi_ef < lo_ef or hi_ef - lo_ef > 8:
                lo_ef, hi_ef = 0, 0x7FF
            base = list(st.raw) + vside + cons
            signbad = (sign == (0 if vneg else 1))
            cands = range(lo_ef, hi_ef + 1)
            if hi_ef - lo_ef > 8:
                cands = []
                seen = []
                while len(seen) < 8:
                    r0 = lia.check(st.pc, st.extras, (), raw=base + [efv != x for x in seen])
                    if r0 != 'sat':
                        if r0 == 'unknown':
                            results.append(('unknown', None))
                        break
                    seen.append(lia.last_model.eval(efv, model_completion=True).as_long())
                cands = seen
            for ef in cands:
                r = lia.check(st.pc, st.extras, (), raw=base + [efv == ef, z3.Or(signbad, wrong_formula_q(vnum, vden, ef, frac))])
                results.append((r, {'assign': lia.model_assign()} if r == 'sat' else None))
            if not results:
                results.append(('unsat', None))
        else:
            # a concrete float (e.g. 0 for mantissa 0): judge with the concrete R-ROUND
            from .fpspec import wrong_formula_q as wq
            bits = desc if desc.__class__ is int else 0
            ef, fr_ = (bits >> 52) & 0x7FF, bits & ((1 << 52) - 1)
            r = lia.check(st.pc, st.extras, (), raw=list(st.raw) + vside + [z3.Or(z3.BoolVal(((bits >> 63) == 1) != vneg), wq(vnum, vden, ef, z3.IntVal(fr_)))])
            results.append((r, {'assign': lia.model_assign()} if r == 'sat' else None))
        self.ses.obligations = getattr(self.ses, 'obligations', 0) + len(results)
        ok = True
        for verdict, info in results:
            if verdict == 'unsat':
                continue
            ok = False
            bad = st.fork()
            bad.status = 'assertfail'
            bad.result = (aid, ins['pos'])
            if verdict == 'sat' and info and info.get('assign'):
                for v in ex.store.vars:
                    if v.kind == 'byte':
                        vt = ex.store._mk('var', 8, (v.idx,), v.bit)
                        bad.pc = ex.mdd.and_byte(bad.pc, v.order, 1 << (info['assign'].get(v.idx, 0) & 255))
            elif verdict != 'sat':
                bad.inexact = True
            if bad.pc is not None:
                ex.finish(bad)
                rec[1] += 1
        if ok:
            rec[0] += 1
        return None
