//go:build verif && !verifnative

package fp

func vAssertShift(before, after *decimal, k int, left bool, id string)

func vAssertSetValue(lit []byte, d *decimal, id string)

func vAssertRoundedInt(a *decimal, n uint64, id string)

func vAbsDecimal(d *decimal, lit []byte)

func vAssertHalfwayFits(n int, man uint64, e2 int, id string)

func vAssertScanExpo(lit []byte, mant uint64, exp int, neg bool, trunc bool, id string)

func vAssertSetExpo(lit []byte, d *decimal, id string)
