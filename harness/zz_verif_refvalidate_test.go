//go:build verif && verifnative

package rjson

import (
	"bytes"
	"encoding/json"
	"fmt"
	"os"
	"path/filepath"
	"strconv"
	"strings"
	"testing"
	"unicode/utf8"
)

// Validation of the reference models against the standard library. This validates the
// oracle; it decides no property. Run by `check.py refvalidate` and by thorough tiers.

// the (success, offset) pair of encoding/json's streaming decoder for the first value
func vDecoderSkip(data []byte) (int, error) {
	dec := json.NewDecoder(bytes.NewReader(data))
	dec.UseNumber()
	tkn, err := dec.Token()
	if err != nil {
		return int(dec.InputOffset()), err
	}
	if _, ok := tkn.(json.Delim); !ok {
		return int(dec.InputOffset()), nil
	}
	dec = json.NewDecoder(bytes.NewReader(data))
	dec.UseNumber()
	var val interface{}
	err = dec.Decode(&val)
	return int(dec.InputOffset()), err
}

func vSanitizeTree(v interface{}) interface{} {
	switch x := v.(type) {
	case string:
		return string(vRefSanitizeUTF8([]byte(x), nil))
	case []interface{}:
		out := make([]interface{}, len(x))
		for i := range x {
			out[i] = vSanitizeTree(x[i])
		}
		return out
	case map[string]interface{}:
		out := map[string]interface{}{}
		for k, w := range x {
			out[string(vRefSanitizeUTF8([]byte(k), nil))] = vSanitizeTree(w)
		}
		return out
	}
	return v
}

func vCorpus(t *testing.T, full bool) [][]byte {
	var out [][]byte
	pats := []string{"testdata/jsontestsuite/*.json", "testdata/*.json"}
	if full {
		pats = append(pats, "testdata/fuzz/corpus/*")
	}
	for _, p := range pats {
		files, _ := filepath.Glob(p)
		for _, f := range files {
			b, err := os.ReadFile(f)
			if err == nil && len(b) < 1<<20 {
				out = append(out, b)
			}
		}
	}
	for _, s := range invalidJSON {
		out = append(out, []byte(s))
	}
	for _, s := range oldCrashers {
		out = append(out, []byte(s))
	}
	// exhaustive short strings over a grammar alphabet
	alpha := []byte(" \n[]{},:\"\\/u0a1e9E+-.tfn\x00\x1f\x80\xc3")
	var rec func(cur []byte, k int)
	rec = func(cur []byte, k int) {
		out = append(out, append([]byte(nil), cur...))
		if k == 0 {
			return
		}
		for _, c := range alpha {
			rec(append(cur, c), k-1)
		}
	}
	depth := 3
	if full {
		depth = 4
	}
	rec(nil, depth)
	return out
}

func TestVerifRefValidate(t *testing.T) {
	full := os.Getenv("VERIF_REF_FULL") == "1"
	docs := vCorpus(t, full)
	n := 0
	for _, d := range docs {
		n++
		if got, want := vRefValid(d), json.Valid(d); got != want {
			t.Fatalf("vRefValid(%q) = %v, encoding/json says %v", d, got, want)
		}
		// prefix semantics against the streaming decoder
		wp, werr := vDecoderSkip(d)
		end, ok := vRefSkip(d)
		if ok != (werr == nil) {
			t.Fatalf("vRefSkip(%q) ok=%v, decoder err=%v", d, ok, werr)
		}
		if ok && end != wp {
			t.Fatalf("vRefSkip(%q) end=%d, decoder offset %d", d, end, wp)
		}
		// strings
		ws := vSkipWS(d, 0)
		if ok && d[ws] == '"' {
			out, send, sok := vRefReadString(d, nil)
			var js string
			if !sok || send != end {
				t.Fatalf("vRefReadString(%q) ok=%v end=%d want %d", d, sok, send, end)
			}
			if err := json.Unmarshal(d[ws:end], &js); err != nil {
				t.Fatalf("json rejects string %q", d[ws:end])
			}
			if string(vRefSanitizeUTF8(out, nil)) != js {
				t.Fatalf("vRefReadString(%q) = %q, json %q", d, out, js)
			}
		}
		// value trees
		if ok && utf8.Valid(d[ws:end]) {
			tree, _, fits := vRefDecode(d, ws)
			var jv interface{}
			jerr := json.Unmarshal(d[ws:end], &jv)
			if fits != (jerr == nil) {
				t.Fatalf("vRefDecode(%q) fits=%v json err=%v", d, fits, jerr)
			}
			if fits && !vTreeEq(vSanitizeTree(tree), jv) {
				t.Fatalf("vRefDecode(%q) = %v, json %v", d, tree, jv)
			}
		}
		// sanitiser
		if got, want := string(vRefSanitizeUTF8(d, nil)), strings.ToValidUTF8(string(d), "�"); got != want {
			// ToValidUTF8 collapses runs of invalid bytes into one replacement; compare rune-wise instead
			want2 := string([]rune(string(d)))
			if got != want2 {
				t.Fatalf("vRefSanitizeUTF8(%q) = %q want %q", d, got, want2)
			}
		}
		if l := vRefUTF8Len(d); l > 0 {
			r, w := utf8.DecodeRune(d)
			if r == utf8.RuneError && w == 1 || w != l {
				t.Fatalf("vRefUTF8Len(%q) = %d, utf8 says %d", d, l, w)
			}
		} else if len(d) > 0 {
			if r, w := utf8.DecodeRune(d); !(r == utf8.RuneError && w == 1) {
				t.Fatalf("vRefUTF8Len(%q) = 0 but utf8 decodes width %d", d, w)
			}
		}
	}
	// integers around every bound and length switch-over
	ints := []string{"0", "-0", "1", "-1", "00", "01", "-", "+1", "1.0", "1e2", "1E2", "12a", " 12", "\t-5 ",
		"2147483647", "2147483648", "-2147483648", "-2147483649", "4294967295", "4294967296",
		"9223372036854775807", "9223372036854775808", "-9223372036854775808", "-9223372036854775809",
		"18446744073709551615", "18446744073709551616", "99999999999999999999", "100000000000000000000", "999999999999999999", "1000000000000000000"}
	for _, s := range ints {
		for kind := 0; kind < 6; kind++ {
			fits, neg, ds, de := vRefIntFits(kind, []byte(s))
			trimmed := strings.TrimLeft(s, " \t\r\n")
			// maximal-munch JSON integer literal, independently of the reference: -?(0|[1-9][0-9]*)
			e := 0
			if e < len(trimmed) && trimmed[e] == '-' {
				e++
			}
			ds0 := e
			if e < len(trimmed) && trimmed[e] == '0' {
				e++
			} else {
				for e < len(trimmed) && trimmed[e] >= '0' && trimmed[e] <= '9' {
					e++
				}
			}
			lit := trimmed[:e]
			wantOK := false
			var wantMag uint64
			validLit := e > ds0 && !(e < len(trimmed) && (trimmed[e] == '.' || trimmed[e] == 'e' || trimmed[e] == 'E'))
			if validLit {
				switch kind {
				case 0, 5:
					v, err := strconv.ParseUint(lit, 10, 64)
					wantOK, wantMag = err == nil, v
				case 3:
					v, err := strconv.ParseUint(lit, 10, 32)
					wantOK, wantMag = err == nil, v
				case 1, 4:
					v, err := strconv.ParseInt(lit, 10, 64)
					wantOK = err == nil
					if v < 0 {
						wantMag = uint64(-v)
					} else {
						wantMag = uint64(v)
					}
				case 2:
					v, err := strconv.ParseInt(lit, 10, 32)
					wantOK = err == nil
					if v < 0 {
						wantMag = uint64(-v)
					} else {
						wantMag = uint64(v)
					}
				}
			}
			if fits != wantOK {
				t.Fatalf("vRefIntFits(kind %d, %q) = %v want %v", kind, s, fits, wantOK)
			}
			if fits {
				if got := vRefDigitsValue([]byte(s), ds, de); got != wantMag {
					t.Fatalf("vRefDigitsValue(%q) = %d want %d (neg %v)", s, got, wantMag, neg)
				}
			}
		}
	}
	fmt.Printf("VERIF-REFVALIDATE documents=%d integer_literals=%d\n", n, len(ints))
	_ = bytes.Equal
}
