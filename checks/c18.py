"""C18: footprint analysis over the exported SSA of the real packages.

(a) no function outside package initialisation writes to memory reachable from a
    package-level variable (directly, through a reference loaded from one, or by
    passing such a reference to a function that writes through that parameter);
(b) in the symbolic runs of the other harnesses every store hits an object that is
    fresh on the path or reachable from the call's own mutable arguments (the executor's
    'global-write' event).
From (a),(b) calls that share only read-only inputs have disjoint write sets and read
only immutable shared data; race freedom then follows from the Go memory model (DRF-SC),
which is cited, not checked. A footprint breach is confirmed by running a battery of
API calls in several goroutines under the race detector before it is reported."""
from gosym.program import K_VAR, K_GLOBAL, K_FUNC, K_BUILTIN, K_CONST

REFKINDS = ('ptr', 'slice', 'map', 'chan', 'func')


def _skip(fn):
    n = fn.name
    short = n.split('/')[-1]
    if fn.extern or fn.blocks is None:
        return True
    base = short.split('.')[-1] if '.' in short else short
    if '.init' in short or short.endswith('.init'):
        return True
    last = short.split(')')[-1].lstrip('.') if ')' in short else short.split('.', 1)[-1]
    if last.startswith('v') and len(last) > 1 and (last[1].isupper() or last[1] == '_'):
        return True      # harness code
    if 'Compat' in last or last.startswith('fuzz') or last.startswith('Fuzz') or last in ('checkFuzzErrors', 'checkFuzzResults', 'ifaceCompare', 'wrongTypeErr', 'wrongValErr', 'newPathErr', 'dirtyStringBuffer', 'stdLibCompatibleValue', 'RunFuzz'):
        return True      # encoding/json oracles and fuzz/test helpers shipped in non-test files
    return False


def analyse(prog, pkgs):
    funcs = {n: f for n, f in prog.funcs.items() if f.pkg in pkgs and not _skip(f)}
    # --- summaries: which parameters does a function write through (fixpoint) ---
    writes = {n: set() for n in funcs}       # name -> set of param indices written through

    def taint_pass(fn, roots):
        """roots: dict value name -> label. Returns (findings, labels written through)."""
        types = prog.types
        lab = dict(roots)
        findings = []
        written = set()
        instrs = [(b, i) for b in fn.blocks for i in b.instrs]
        # def-use propagation with a worklist: users[name] = instructions / phis reading it
        users = {}
        for b in fn.blocks:
            for (name, edges) in b.phis:
                for e in edges:
                    if e is not None and e[0] == K_VAR:
                        users.setdefault(e[1], []).append(('phi', name, edges))
            for ins in b.instrs:
                x = ins.get('x')
                if x is not None and x.__class__ is tuple and x[0] == K_VAR and 'name' in ins:
                    users.setdefault(x[1], []).append(('ins', ins))

        def derive(ins, src):
            op = ins['op']
            if op in ('IndexAddr', 'FieldAddr', 'Slice', 'ChangeType', 'ChangeInterface'):
                return src
            if op in ('Field', 'Index', 'Extract', 'Convert', 'TypeAssert', 'MakeInterface'):
                k = types[ins['type']]['kind'] if ins.get('type') is not None and ins['type'] >= 0 else ''
                return src if (k in REFKINDS or k in ('iface', 'struct', 'array', 'tuple')) else None
            if op == 'UnOp' and ins['tok'] == '*':
                k = types[ins['type']]['kind']
                return src if (k in REFKINDS or k in ('struct', 'array')) else None
            return None
        work = list(lab)
        # seeds: instructions whose x operand is a global
        for b, ins in instrs:
            x = ins.get('x')
            if x is not None and x.__class__ is tuple and x[0] == K_GLOBAL and 'name' in ins:
                l = derive(ins, 'global ' + x[1].split('/')[-1])
                if l and ins['name'] not in lab:
                    lab[ins['name']] = l
                    work.append(ins['name'])
        for b in fn.blocks:
            for (name, edges) in b.phis:
                for e in edges:
                    if e is not None and e[0] == K_GLOBAL and name not in lab:
                        lab[name] = 'global ' + e[1].split('/')[-1]
                        work.append(name)
        while work:
            v = work.pop()
            src = lab[v]
            for u in users.get(v, ()):
                if u[0] == 'phi':
                    if u[1] not in lab:
                        lab[u[1]] = src
                        work.append(u[1])
                else:
                    ins = u[1]
                    l = derive(ins, src)
                    if l and ins['name'] not in lab:
                        lab[ins['name']] = l
                        work.append(ins['name'])
        for b, ins in instrs:
            op = ins['op']
            pos = ins.get('pos', '').replace('/repo/', '')
            if op == 'Store':
                l = _lab(ins['addr'], lab)
                if l:
                    written.add(l)
                    findings.append((l, 'store', pos))
            elif op == 'MapUpdate':
                l = _lab(ins['map'], lab)
                if l:
                    written.add(l)
                    findings.append((l, 'map update', pos))
            elif op in ('Call', 'Defer', 'Go'):
                cc = ins['call']
                callee = cc.get('callee')
                args = cc['args']
                if callee is not None and callee[0] == K_BUILTIN:
                    if callee[1] in ('append', 'copy') and args:
                        l = _lab(args[0], lab)
                        if l and callee[1] == 'copy':
                            written.add(l)
                            findings.append((l, 'copy into', pos))
                        elif l and callee[1] == 'append':
                            # appending to a shared slice may write its spare capacity
                            written.add(l)
                            findings.append((l, 'append to', pos))
                    continue
                if callee is not None and callee[0] == K_FUNC:
                    cn = callee[1]
                    w = writes.get(cn)
                    if cn.startswith('(*sync/atomic.') or cn.startswith('sync/atomic.'):
                        # atomic operations write through their first argument by way of unsafe pointers, which the
                        # parameter summaries cannot follow: every one but the loads is a write to shared state
                        meth = cn.split('.')[-1]
                        l = _lab(args[0], lab) if args else None
                        if l and not meth.startswith('Load'):
                            written.add(l)
                            findings.append((l, 'sync/atomic %s on' % meth, pos))
                        continue
                    for i, a in enumerate(args):
                        l = _lab(a, lab)
                        if not l:
                            continue
                        if w is None:
                            if cn in ('(*sync.Pool).Get', '(*sync.Pool).Put') or cn.startswith('fmt.') or cn.startswith('math') or cn.startswith('unicode/'):
                                if cn.startswith('(*sync.Pool)'):
                                    written.add(l)
                                    findings.append((l, 'sync.Pool on', pos))
                                continue
                            written.add(l)
                            findings.append((l, 'passed to unanalysed %s' % cn.split('/')[-1], pos))
                        elif i in w:
                            written.add(l)
                            findings.append((l, 'passed to %s which writes through it' % cn.split('/')[-1], pos))
                elif 'invoke' in cc or callee is not None:
                    for a in ([cc.get('recv')] if 'invoke' in cc else []) + list(args):
                        l = _lab(a, lab)
                        if l:
                            written.add(l)
                            findings.append((l, 'passed to a dynamic call', pos))
        return findings, written

    def _lab(o, lab):
        if o is None:
            return None
        if o[0] == K_VAR:
            return lab.get(o[1])
        if o[0] == K_GLOBAL:
            return 'global ' + o[1].split('/')[-1]
        return None

    # parameter summaries to fixpoint
    changed = True
    rounds = 0
    while changed and rounds < 20:
        changed = False
        rounds += 1
        for n, fn in funcs.items():
            roots = {pn: 'param %d' % i for i, (pn, pt) in enumerate(fn.params) if prog.types[pt]['kind'] in REFKINDS + ('iface',)}
            for i, (pn, pt) in enumerate(fn.freevars):
                roots[pn] = 'freevar %d' % i
            _, written = taint_pass(fn, roots)
            w = set(int(l.split()[1]) for l in written if l.startswith('param '))
            if w != writes[n]:
                writes[n] = w
                changed = True
    # global footprint
    findings = []
    nfuncs = 0
    for n, fn in funcs.items():
        nfuncs += 1
        roots = {pn: 'param %d' % i for i, (pn, pt) in enumerate(fn.params) if prog.types[pt]['kind'] in REFKINDS + ('iface',)}
        f, _ = taint_pass(fn, roots)
        for l, what, pos in f:
            if l.startswith('global '):
                findings.append('%s: %s %s at %s' % (n.split('/')[-1], what, l, pos))
    return sorted(set(findings)), nfuncs, {n.split('/')[-1]: sorted(w) for n, w in writes.items() if w}
