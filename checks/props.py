"""Per-property check definitions."""
from .common import Check, Job, RJSON, FP

BUFMODES_QUICK = [0, 1, 2, 4]          # nil, fresh, used len 0, used len 2
BUFMODES_THOROUGH = [0, 1, 2, 3, 4, 14]  # ... used len 1, len 12 (> any depth reachable at these N)


def _machine_jobs(c, harness, N, modes, sym='d'):
    for n in range(0, N + 1):
        for m in modes:
            # all buffer modes at the smaller lengths, nil + one dirty buffer at the largest
            if n == N and m not in (modes[0], modes[-1]):
                continue
            c.add(Job(harness, [('bytes', sym, n), ('int', m)], weight=3 ** n))


def check_C01(tier, nproc=None):
    c = Check('C01', tier)
    N = 7 if tier == 'quick' else 10
    modes = BUFMODES_QUICK if tier == 'quick' else BUFMODES_THOROUGH
    _machine_jobs(c, 'vH_C01', N, modes)
    c.bounds = {'N': N, 'buffer_modes': modes, 'meaning': 'every byte string of length <= N; Buffer nil / fresh / used with arbitrary contents'}
    c.must_reach = ['C01.compared']
    c.assumptions = ['reference vRefValid (harness/zz_verif_ref.go) is RFC 8259; validated natively against encoding/json',
                     'go/ssa lowering and the gosym encoder model the compiled code (validated by native replay of samples)',
                     'amd64: int is 64 bit']
    c.outside = ['inputs longer than N bytes', 'nesting deeper than N (the 10,000 limit is not reachable at this bound)']
    c.run_jobs(nproc)
    c.confirm()
    return c.finish()


def check_C02(tier, nproc=None):
    c = Check('C02', tier)
    N = 7 if tier == 'quick' else 10
    modes = BUFMODES_QUICK if tier == 'quick' else BUFMODES_THOROUGH
    _machine_jobs(c, 'vH_C02', N, modes)
    c.bounds = {'N': N, 'buffer_modes': modes}
    c.must_reach = ['C02.compared']
    c.assumptions = ['reference vRefSkip is the one-pass RFC 8259 prefix reading; validated natively against encoding/json Decoder offsets',
                     'encoder validated by native replay of samples', 'amd64']
    c.outside = ['inputs longer than N bytes', 'depth limit 10,000']
    c.run_jobs(nproc)
    c.confirm()
    return c.finish()


def check_C11(tier, nproc=None):
    c = Check('C11', tier)
    N = 7 if tier == 'quick' else 10
    modes = [0, 4] if tier == 'quick' else [0, 1, 2, 4]
    _machine_jobs(c, 'vH_C11', N, modes)
    c.bounds = {'N': N, 'buffer_modes_for_fast': modes}
    c.must_reach = ['C11.wellformed']
    c.assumptions = ['encoder validated by native replay of samples', 'amd64']
    c.outside = ['inputs longer than N bytes', 'depth limit 10,000']
    c.run_jobs(nproc)
    c.confirm()
    return c.finish()


def check_C13(tier, nproc=None):
    c = Check('C13', tier)
    N = 6 if tier == 'quick' else 8
    for n in range(0, N + 1):
        c.add(Job('vH_C13_token', [('bytes', 'd', n)], weight=2 ** n))
        c.add(Job('vH_C13_literals', [('bytes', 'd', n)], weight=3 ** n))
    c.bounds = {'N': N}
    c.must_reach = ['C13.eof', 'C13.token', 'C13.readnull']
    c.assumptions = ['reference token table / literal matcher in harness/zz_verif_ref.go', 'amd64']
    c.outside = ['inputs longer than N bytes (whitespace prefixes longer than N)']
    c.run_jobs(nproc)
    c.confirm()
    return c.finish()
