//go:build verif && verifnative

package fp

import (
	"math"
	"math/big"
)

var (
	vScript    []int64
	vCursor    int
	vFailures  []string
	vReached   []string
	vExhausted int
)

type vAssumeFailed struct{}

func vNext(name string) int64 {
	if vCursor >= len(vScript) {
		vExhausted++
		return 0
	}
	v := vScript[vCursor]
	vCursor++
	return v
}

func vNondetInt(name string) int       { return int(vNext(name)) }
func vNondetBool(name string) bool     { return vNext(name) != 0 }
func vNondetByte(name string) byte     { return byte(vNext(name)) }
func vNondetUint64(name string) uint64 { return uint64(vNext(name)) }
func vAssume(c bool) {
	if !c {
		panic(vAssumeFailed{})
	}
}
func vAssert(c bool, id string) {
	if !c {
		vFailures = append(vFailures, id)
	}
}
func vReach(id string) { vReached = append(vReached, id) }
func vReset(script []int64) {
	vScript = script
	vCursor = 0
	vFailures = nil
	vReached = nil
	vExhausted = 0
}

// exact check with math/big: bits is finite and no other finite binary64 is strictly
// closer to man*10^exp10, ties resolved to the even significand.
func vAssertRounded(man uint64, exp10 int, neg bool, bits uint64, id string) {
	if !vIsRounded(man, exp10, neg, bits) {
		vFailures = append(vFailures, id)
	}
}

func vIsRounded(man uint64, exp10 int, neg bool, bits uint64) bool {
	if (bits>>63 != 0) != neg {
		return false
	}
	ef := int(bits >> 52 & 0x7FF)
	frac := bits & (1<<52 - 1)
	if ef == 0x7FF {
		return false
	}
	x := new(big.Rat).SetInt(new(big.Int).SetUint64(man))
	p := new(big.Int).Exp(big.NewInt(10), big.NewInt(int64(abs(exp10))), nil)
	if exp10 >= 0 {
		x.Mul(x, new(big.Rat).SetInt(p))
	} else {
		x.Quo(x, new(big.Rat).SetInt(p))
	}
	val := func(b uint64) *big.Rat {
		f := math.Float64frombits(b &^ (1 << 63))
		r := new(big.Rat)
		r.SetFloat64(f)
		return r
	}
	abits := bits &^ (1 << 63)
	got := val(abits)
	d := new(big.Rat).Sub(x, got)
	d.Abs(d)
	// neighbours
	if abits > 0 {
		lo := val(abits - 1)
		dl := new(big.Rat).Sub(x, lo)
		dl.Abs(dl)
		c := dl.Cmp(d)
		if c < 0 || (c == 0 && frac&1 == 1) {
			return false
		}
	}
	if abits+1 < 0x7FF0000000000000 {
		hi := val(abits + 1)
		dh := new(big.Rat).Sub(x, hi)
		dh.Abs(dh)
		c := dh.Cmp(d)
		if c < 0 || (c == 0 && frac&1 == 1) {
			return false
		}
	} else {
		// got is MaxFloat64: x must be below the overflow threshold MaxFloat64 + ulp/2
		_ = ef
		thr := new(big.Rat).SetInt(new(big.Int).Lsh(big.NewInt(1), 1024))
		half := new(big.Rat).SetInt(new(big.Int).Lsh(big.NewInt(1), 970))
		thr.Sub(thr, half)
		if x.Cmp(thr) >= 0 {
			return false
		}
	}
	return true
}

func abs(i int) int {
	if i < 0 {
		return -i
	}
	return i
}

// native meaning of the glue assertions: exact comparison with math/big
func vLitRat(lit []byte) (*big.Rat, bool) {
	neg := false
	s := string(lit)
	if len(s) > 0 && s[0] == '-' {
		neg = true
		s = s[1:]
	}
	r, ok := new(big.Rat).SetString(s)
	if !ok {
		return nil, false
	}
	return r, neg
}

func vAssertGlueValue(lit []byte, bits uint64, id string) {
	x, neg := vLitRat(lit)
	if x == nil || !vIsRoundedRat(x, neg, bits) {
		vFailures = append(vFailures, id)
	}
}

func vGlueOverflows(lit []byte) bool {
	x, _ := vLitRat(lit)
	if x == nil {
		return false
	}
	thr := new(big.Rat).SetInt(new(big.Int).Lsh(big.NewInt(1), 1024))
	half := new(big.Rat).SetInt(new(big.Int).Lsh(big.NewInt(1), 970))
	thr.Sub(thr, half)
	return x.Cmp(thr) >= 0
}

func vIsRoundedRat(x *big.Rat, neg bool, bits uint64) bool {
	if (bits>>63 != 0) != neg {
		return false
	}
	frac := bits & (1<<52 - 1)
	if bits>>52&0x7FF == 0x7FF {
		return false
	}
	val := func(b uint64) *big.Rat {
		r := new(big.Rat)
		r.SetFloat64(math.Float64frombits(b &^ (1 << 63)))
		return r
	}
	abits := bits &^ (1 << 63)
	got := val(abits)
	d := new(big.Rat).Sub(x, got)
	d.Abs(d)
	if abits > 0 {
		dl := new(big.Rat).Sub(x, val(abits-1))
		dl.Abs(dl)
		if c := dl.Cmp(d); c < 0 || (c == 0 && frac&1 == 1) {
			return false
		}
	}
	if abits+1 < 0x7FF0000000000000 {
		dh := new(big.Rat).Sub(x, val(abits+1))
		dh.Abs(dh)
		if c := dh.Cmp(d); c < 0 || (c == 0 && frac&1 == 1) {
			return false
		}
	} else {
		thr := new(big.Rat).SetInt(new(big.Int).Lsh(big.NewInt(1), 1024))
		half := new(big.Rat).SetInt(new(big.Int).Lsh(big.NewInt(1), 970))
		thr.Sub(thr, half)
		if x.Cmp(thr) >= 0 {
			return false
		}
	}
	return true
}

func vAssertScanValue(lit []byte, mant uint64, exp int, neg bool, trunc bool, id string) {
	x, vneg := vLitRat(lit)
	if x == nil {
		vFailures = append(vFailures, id)
		return
	}
	if exp > 5000 || exp < -5000 {
		// possibly a capped exponent: the tiers decline it; the true value must be out of their range on the same side
		ten348 := new(big.Rat).SetInt(new(big.Int).Exp(big.NewInt(10), big.NewInt(348), nil))
		ok := neg == vneg
		if exp > 0 {
			lim := new(big.Rat).SetInt(new(big.Int).SetUint64(mant))
			lim.Mul(lim, ten348)
			ok = ok && (mant == 0 || x.Cmp(lim) >= 0)
		} else {
			lim := new(big.Rat).SetInt(new(big.Int).Add(new(big.Int).SetUint64(mant), big.NewInt(1)))
			lim.Quo(lim, ten348)
			ok = ok && x.Cmp(lim) < 0
		}
		if !ok {
			vFailures = append(vFailures, id)
		}
		return
	}
	scale := new(big.Rat).SetInt(new(big.Int).Exp(big.NewInt(10), big.NewInt(int64(abs(exp))), nil))
	lo := new(big.Rat).SetInt(new(big.Int).SetUint64(mant))
	hi := new(big.Rat).SetInt(new(big.Int).Add(new(big.Int).SetUint64(mant), big.NewInt(1)))
	if exp >= 0 {
		lo.Mul(lo, scale)
		hi.Mul(hi, scale)
	} else {
		lo.Quo(lo, scale)
		hi.Quo(hi, scale)
	}
	ok := neg == vneg
	if trunc {
		ok = ok && (mant == 0 || (lo.Cmp(x) <= 0 && x.Cmp(hi) < 0))
	} else {
		ok = ok && lo.Cmp(x) == 0
	}
	if !ok {
		vFailures = append(vFailures, id)
	}
}
