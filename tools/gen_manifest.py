#!/usr/bin/env python3
"""Regenerates /verif/MANIFEST.json from the table below (single source of truth for what is claimed)."""
import json

TECH = ('bounded symbolic execution of the go/ssa of the real functions (regenerated from /repo on every run): '
        'inputs are symbolic bytes, path conditions are decision diagrams over bytes plus z3 constraints, '
        'every harness assertion / runtime check is decided by z3 (bit-vector, or integer encoding with explicit wrap), '
        'sat models are replayed natively')

TECH_BY = {
 'C18': 'solver-based part: bounded symbolic execution of the go/ssa of every entry point (inputs are symbolic bytes, path feasibility decided by z3) with a monitor on every store to memory reachable from a package-level variable - no feasible path may write shared state; complemented by a static taint pass over the same SSA (addresses of package-level variables and references loaded from them must not reach a store, map update, copy/append target, sync/atomic write or a callee that writes through its parameter) for code the bounded runs do not reach. Interleavings are NOT encoded or explored: race freedom is inferred from this footprint result by DRF-SC, which is an argument and not a solver verdict (level "other"); a goroutine battery under the race detector is used only to confirm a reported breach',
 'C19': TECH + '; allocation sites are taken from the compiler\'s escape analysis (go build -gcflags=-m, regenerated per run) and monitored as events in the symbolic runs; the float conversion\'s call-graph closure is scanned for such sites',
 'C20': 'bounded symbolic execution of the go/ssa of the real functions with a byte-cost monitor over a stated allocation cost model; reader size hints are free integer variables; the marginal-cost, single-call amortised and growth-step inequalities are decided by z3 in the integer encoding; sat models are replayed natively with runtime.MemStats.TotalAlloc',
 'C04': 'per-tier solver obligations over the go/ssa of internal/fp (regenerated from /repo on every run): symbolic digits / free 64-bit mantissas / free exponent digits, correct rounding stated as linear integer inequalities (R-ROUND), decided by z3 in an integer encoding with explicit wrap-around (bit-vectors only for the right-shift remainder loop); sat models are replayed natively against math/big',
}
NOTE = ('trusted: z3; go/ssa; the gosym encoder (validated each run by replaying sampled path classes against the real build); '
        'the Go reference models in harness/zz_verif_ref.go (validated natively against encoding/json, strconv, unicode/utf8); amd64')

CHECKS = {
 'C01': ('model_checking', 'For every byte string of length <= N (quick 7, thorough 10) and Buffer nil / fresh / used-with-arbitrary-contents, Valid equals the RFC 8259 reference verdict; all 256^n inputs are covered by the solver-checked partition of path classes, none sampled. Also long concrete documents (35-65 bytes) with a window of one (thorough: two) free bytes at every offset.', '6.1'),
 'C02': ('model_checking', 'For every byte string of length <= N, SkipValue succeeds exactly when the reference one-pass RFC 8259 reader does and returns the same end offset (every value followed by every next byte, every truncation). Also long concrete documents (35-65 bytes) with a window of one (thorough: two) free bytes at every offset.', '6.2'),
 'C04': ('model_checking', 'Per-tier solver obligations over the SSA of internal/fp: (T1) the literal scanner readFloat against the RFC 8259 number grammar and the mantissa/exponent/truncation decomposition on all strings <= N and long-digit templates; (T2) atof64exact for every accepted exponent and every mantissa in an exact-rational model of IEEE arithmetic; (T3) Eisel-Lemire: for every one of the 696 table rows and every 64-bit mantissa, a result returned with ok is the correctly rounded binary64 (linear integer arithmetic, R-ROUND). (T4) the glue of ParseJSONFloatPrefix (order of tiers, !trunc guard, truncated-mantissa re-check, error plumbing) against the tiers\' contracts on literal templates. (T5) units of the multi-precision fallback: leftShift and rightShift exactness on short operands, decimal.set leaves a decimal denoting the literal (also across its 800-digit buffer), RoundedInteger is nearest-even on short operands, and floatBits is run for real over an abstract exact decimal whose Shift/RoundedInteger follow those contracts (subnormal, overflow and halfway templates). NOT established: the unit contracts for operands longer than the stated bounds, truncation beyond 800 digits (stated in evidence.outside). Also: the exponent accumulation of the scanner and of decimal.set for every exponent digit string of 3-6 free digits behind concrete mantissas (exact, or capped on the same side of the consumer\'s range); the scanner and decimal.set on literals of 100 008 bytes whose exponent cancels their digit count (a reported exponent beyond the fast tiers\' table must mean a value beyond it: saturated-exponent contract), and (T5f) for every binade and every mantissa the exact halfway point fits the digit buffer whose length is read from the code (one integer inequality per binade).', '6.4'),
 'C05': ('model_checking', 'All six integer readers on every byte string <= N and on digit templates (optional sign, up to 21 symbolic bytes, look-ahead byte): success iff integer literal in range (decimal-string comparison oracle), exact value (integer-arithmetic encoding with explicit wrap), offset after the last digit.', '6.5'),
 'C06': ('model_checking', 'ReadStringBytes / ReadString / UnescapeStringContent on every byte string <= N and on escape templates (all 65,536 code units, all 2^32 surrogate combinations, escapes next to arbitrary bytes) with arbitrary destination prefix and spare capacity: success, offset and every output byte equal the RFC 8259 reference decoder. Also 38-45 byte string tokens with a window of free bytes at every offset.', '6.6'),
 'C07': ('model_checking', 'HandleArrayValues / HandleObjectValues with a handler that nondeterministically returns 0 or the exact end per call: success iff well-formed container or null; on success call count, order, value start and raw key bytes match the reference member list and the offset is the container end.', '6.7'),
 'C09': ('model_checking', 'A handler failing at call k (k < K) with a free 64-bit offset: the returned error is the identical value and no further call is made, for every input <= N.', '6.9'),
 'C10': ('model_checking', 'No feasible path reaches a Go runtime panic and every (offset, nil) result is within the input, for every entry point on every input <= N, every Buffer state, and a handler returning a free 64-bit offset at every call; out-of-range handler offsets yield an error. Also long documents/strings with a window of free bytes at every offset, and the UTF-8 helpers at every tight destination capacity.', '6.10'),
 'C11': ('model_checking', 'Whenever SkipValue succeeds on an input <= N (or on the nested-string templates), SkipValueFast succeeds with the same offset. Also long concrete documents and arrays whose first structural byte sits at every distance 1..18 from the bracket, with a window of free bytes at every offset.', '6.11'),
 'C12': ('model_checking', 'Decode{Int*,Uint*,Bool,String} with a free prior target: reader success => same offset and stored value; literal null => offset after null, target untouched; otherwise error and target untouched.', '6.12'),
 'C13': ('model_checking', 'NextToken / NextTokenType / ReadBool / ReadNull on every byte string <= N against the fixed token table and literal matcher. Also whitespace runs of 17-40 bytes with a window of free bytes at every offset.', '6.13'),
 'C14': ('model_checking', 'Each Buffer-taking function called with an arbitrary used Buffer (arbitrary stack length/contents) gives the outcome of the nil-Buffer call, also when the handler re-enters any of the five functions with the same Buffer; an arbitrary slice covers every call history.', '6.14'),
 'C03': ('model_checking', 'ReadValue / ReadObject / ReadArray (fresh reader) on every byte string <= N and on tree-shape templates (duplicate, colliding and escaped keys, empty containers, nesting): success, offset and the whole value tree equal the reference decoder (maps with last duplicate winning); ReadObject/ReadArray reject every other value type including null. Numbers by contract (C04).', '6.3'),
 'C08': ('model_checking', 'A decoder composed from the public API with a nondeterministic choice of admissible call per token (typed readers, SkipValue, SkipValueFast, nested Handle*Values) finishes at the reference end offset whenever direct decoding succeeds, and its validating variant fails whenever it fails.', '6.8'),
 'C15': ('model_checking', 'Two- and three-call histories on one ValueReader over template documents (successes, syntax errors, depth-limit exits with the limit scaled to 3): each later result equals a fresh reader\'s, earlier results stay equal to their reference value also after the caller mutates later results. Also with the caller\'s input buffer reused between the calls (second document written over the first one\'s bytes).', '6.15'),
 'C16': ('model_checking', 'Every entry point leaves its input bytes equal to a snapshot (and no store ever targets an input object); appending functions keep an arbitrary destination prefix for every spare capacity; results do not depend on dirty scratch contents; returned strings/trees equal their reference value after inputs and buffers are overwritten.', '6.16'),
 'C18': ('other', 'Footprint lemma, not schedule exploration: static taint analysis over the SSA shows no write to memory reachable from a package-level variable outside init, and symbolic runs of every entry point raise no global-write event; race freedom for calls sharing read-only inputs then follows from DRF-SC (cited). A reported breach is confirmed with a goroutine battery under -race before it is printed. sync/atomic operations other than loads on package-level variables count as writes; the confirmation battery includes deeply nested and long documents.', '6.18'),
 'C19': ('model_checking', 'With a Buffer warmed by the same call on the same document (and optionally used on another, possibly failing, input in between), destination capacity >= input length and a non-allocating handler, no success path of the listed functions reaches an allocation site (sites per the compiler escape analysis + append growth + map/fmt), for every input <= N and escape/nesting/long-number templates; the float conversion closure contains no allocation site (SSA scan).', '6.19'),
 'C17': ('model_checking', 'StdLibCompatibleString / StdLibCompatibleStringBytes on every byte string <= N (every 1-4 byte sequence class) equal the RFC 3629 sanitiser; idempotent; destination prefix kept. Also 70-140 byte strings of 1/2/3/4-byte characters at every alignment with a window of one (thorough: two) free bytes at every offset.', '6.17'),
 'C20': ('model_checking', 'Marginal-cost obligations with symbolic size hints: two documents that differ by one extra member / nesting level / escape are decoded from the same arbitrary reader state (six free size hints on the reader and a pooled child); allocated bytes plus the potential left in the hints may grow by at most 1536 B per added input byte + 4096 B. Allocation sizes come from a stated cost model over the SSA (make/append/map/conversion); violations are replayed natively with runtime.MemStats. Known finding: scratch growth to the unread remainder (not repaired). Plus a single-call obligation: one call (well-formed, truncated, wrong type, null, empty input) from the same arbitrary reader state must satisfy cost + potential of the hints it leaves - potential of the hints it found <= A*len + B, i.e. a call that pays for a hint uses it up.', '6.20'),
}

NA = {
}

ALL = ['C%02d' % i for i in range(1, 21)]


def main():
    checks = []
    for pid in ALL:
        if pid not in CHECKS:
            continue
        cat, text, ref = CHECKS[pid]
        checks.append({
            'property_id': pid,
            'quick_cmd': 'python3-vt /verif/check.py %s --tier quick' % pid,
            'thorough_cmd': 'python3-vt /verif/check.py %s --tier thorough' % pid,
            'evidence_file': '/verif/evidence/%s.json' % pid,
            'replay_cmd_template': 'python3-vt /verif/check.py replay {path}',
            'engine': 'gosym',
            'level_claimed': {'category': cat, 'text': text, 'design_ref': 'DESIGN.md section ' + ref},
            'level_note': NOTE,
            'technique': TECH_BY.get(pid, TECH),
        })
    na = []
    for pid in ALL:
        if pid not in CHECKS:
            na.append({'property_id': pid, 'reason': NA.get(pid, 'check not built yet in this tree (engine feature pending); see DESIGN.md')})
    m = {
        'version': 1,
        'setup_cmd': 'cd /verif/engine/ssaexport && GOFLAGS=-mod=mod GOPROXY=off GOSUMDB=off GOTOOLCHAIN=local go build -o /verif/bin/ssaexport .',
        'hooks': {
            'guard': 'verif',
            'enable': 'harness files under /verif/harness are injected into package rjson (and internal/fp) through go/packages Overlay and `go test -overlay` with -tags verif; nothing tagged is committed to /repo',
            'baseline_off_cmd': 'cd /repo && GOFLAGS=-mod=mod GOPROXY=off GOSUMDB=off go test -vet=off -count=1 ./...',
            'source_commits': [],
            'add_only': True,
        },
        'engines': [{'name': 'gosym', 'path': 'engine/gosym', 'serves_properties': sorted(CHECKS),
                     'kind_free_text': 'symbolic executor for go/ssa exported by engine/ssaexport from the current /repo tree; z3 (BV + integer encoding) decides branch feasibility, assertions and runtime checks; native replay of models'}],
        'checks': checks,
        'not_applicable': na,
        'notes': 'fix: commits in /repo: 01b361b, 18ed757 (C10), 9f2a736, be8c7ee (C20), 89826e9, f8cd401 (C04); see known_findings.txt.',
    }
    json.dump(m, open('/verif/MANIFEST.json', 'w'), indent=1)
    print('checks', len(checks), 'not_applicable', len(na))


if __name__ == '__main__':
    main()
