"""z3 back end: translation of terms and decision-diagram path conditions to
z3, one persistent solver, query accounting."""
import time
import z3

from .terms import Term, mask
from .mdd import TRUE, FULL, mask_ranges
from .lia import LiaSolver, LiaUnsupported


class Solver:
    def __init__(self, store, timeout_ms=60000, seed=0):
        self.store = store
        self.s = z3.Solver()
        self.s.set('timeout', timeout_ms)
        if seed:
            self.s.set('random_seed', seed & 0x7fffffff)
        self.timeout_ms = timeout_ms
        self.zvars = {}
        self.stats = {'sat': 0, 'unsat': 0, 'unknown': 0, 'solver_s': 0.0}
        self.bytevars = {}   # mdd order -> z3 var
        self.tabfuncs = {}
        self.cache = {}
        self.lia = LiaSolver(store, timeout_ms=timeout_ms, seed=seed)
        self.last = 'bv'
        self.use_lia = True
        self.xs = None       # cross-solver sampler (xcheck.XSampler), shared with the integer back end

    # ------------------------------------------------------------------
    def zvar(self, v):
        z = self.zvars.get(v.idx)
        if z is None:
            z = z3.BitVec(v.name, v.w) if v.w > 0 else z3.Bool(v.name)
            self.zvars[v.idx] = z
            if v.kind == 'byte':
                self.bytevars[v.order] = z
        return z

    def byte_z3(self, order):
        z = self.bytevars.get(order)
        if z is None:
            for v in self.store.vars:
                if v.kind == 'byte' and v.order == order:
                    return self.zvar(v)
            raise KeyError(order)
        return z

    def c(self, x, w):
        if x.__class__ is Term:
            return self.to_z3(x)
        if w == 0:
            return z3.BoolVal(bool(x))
        return z3.BitVecVal(x, w)

    def to_z3(self, t):
        if t.z3 is not None:
            return t.z3
        # iterative post-order
        stack = [t]
        while stack:
            x = stack[-1]
            if x.z3 is not None:
                stack.pop()
                continue
            pend = False
            for a in x.args:
                if a.__class__ is Term and a.z3 is None:
                    stack.append(a)
                    pend = True
            if pend:
                continue
            x.z3 = self._conv(x)
            stack.pop()
        return t.z3

    def _conv(self, t):
        op, w, a = t.op, t.w, t.args
        c = self.c
        if op == 'var':
            return self.zvar(self.store.vars[a[0]])
        if op in ('add', 'sub', 'mul', 'and', 'or', 'xor', 'udiv', 'urem', 'sdiv', 'srem', 'shl', 'lshr', 'ashr', 'andnot'):
            x, y = c(a[0], w), c(a[1], w)
            if op == 'add':
                return x + y
            if op == 'sub':
                return x - y
            if op == 'mul':
                return x * y
            if op == 'and':
                return x & y
            if op == 'or':
                return x | y
            if op == 'xor':
                return x ^ y
            if op == 'andnot':
                return x & ~y
            if op == 'udiv':
                return z3.UDiv(x, y)
            if op == 'urem':
                return z3.URem(x, y)
            if op == 'sdiv':
                return x / y
            if op == 'srem':
                return z3.SRem(x, y)
            if op == 'shl':
                return x << y
            if op == 'lshr':
                return z3.LShR(x, y)
            if op == 'ashr':
                return x >> y
        if op == 'neg':
            return -c(a[0], w)
        if op == 'not':
            return ~c(a[0], w)
        if op in ('eq', 'ne', 'ult', 'ule', 'slt', 'sle'):
            ow = a[2] if len(a) > 2 else self._w(a[0], a[1])
            x, y = c(a[0], ow), c(a[1], ow)
            if op == 'eq':
                return x == y
            if op == 'ne':
                return x != y
            if op == 'ult':
                return z3.ULT(x, y)
            if op == 'ule':
                return z3.ULE(x, y)
            if op == 'slt':
                return x < y
            return x <= y
        if op == 'band':
            return z3.And(c(a[0], 0), c(a[1], 0))
        if op == 'bor':
            return z3.Or(c(a[0], 0), c(a[1], 0))
        if op == 'bnot':
            return z3.Not(c(a[0], 0))
        if op == 'beq':
            return c(a[0], 0) == c(a[1], 0)
        if op == 'ite':
            return z3.If(c(a[0], 0), c(a[1], w), c(a[2], w))
        if op == 'zext':
            x = self.to_z3(a[0])
            return z3.ZeroExt(w - a[0].w, x)
        if op == 'sext':
            x = self.to_z3(a[0])
            return z3.SignExt(w - a[0].w, x)
        if op == 'trunc':
            x = self.to_z3(a[0])
            return z3.Extract(w - 1, 0, x)
        if op == 'b2i':
            return z3.If(c(a[0], 0), z3.BitVecVal(1, w), z3.BitVecVal(0, w))
        if op == 'select':
            cells, ew = self.store.tabs[a[0]]
            idx = self.to_z3(a[1])
            return self._table(a[0], cells, ew, idx, a[1].w, w)
        if op == 'i2f' or op == 'u2f':
            x = self.to_z3(a[0]) if a[0].__class__ is Term else z3.BitVecVal(a[0], a[1])
            f = z3.fpSignedToFP(z3.RNE(), x, z3.Float64()) if op == 'i2f' else z3.fpUnsignedToFP(z3.RNE(), x, z3.Float64())
            return z3.fpToIEEEBV(f)
        if op == 'mulhi':
            x = z3.ZeroExt(w, c(a[0], w))
            y = z3.ZeroExt(w, c(a[1], w))
            return z3.Extract(2 * w - 1, w, x * y)
        if op == 'clz':
            x = c(a[0], w)
            r = z3.BitVecVal(w, w)
            for i in range(w):
                r = z3.If(z3.Extract(i, i, x) == 1, z3.BitVecVal(w - 1 - i, w), r)
            return r
        if op == 'len':
            x = c(a[0], w)
            r = z3.BitVecVal(0, w)
            for i in range(w):
                r = z3.If(z3.Extract(i, i, x) == 1, z3.BitVecVal(i + 1, w), r)
            return r
        raise NotImplementedError('to_z3 ' + op)

    def _w(self, a, b):
        if a.__class__ is Term:
            return a.w
        return b.w

    def _table(self, tid, cells, ew, idx, iw, w):
        # if-then-else chain grouped by equal values over index ranges
        if ew == 0:
            res = z3.BoolVal(False)
            mk = lambda v: z3.BoolVal(bool(v))
        else:
            res = z3.BitVecVal(0, ew)
            mk = lambda v: z3.BitVecVal(v, ew)
        n = len(cells)
        i = 0
        runs = []
        while i < n:
            j = i
            while j + 1 < n and cells[j + 1] == cells[i]:
                j += 1
            runs.append((i, j, cells[i]))
            i = j + 1
        default = max(set(c for _, _, c in runs), key=lambda v: sum(1 for r in runs if r[2] == v))
        res = mk(default)
        for lo, hi, v in reversed(runs):
            if v == default:
                continue
            if lo == hi:
                cond = idx == z3.BitVecVal(lo, iw)
            else:
                cond = z3.And(z3.UGE(idx, z3.BitVecVal(lo, iw)), z3.ULE(idx, z3.BitVecVal(hi, iw)))
            res = z3.If(cond, mk(v), res)
        return res

    # ------------------------------------------------------------------
    def mask_z3(self, order, m):
        b = self.byte_z3(order)
        if m == FULL:
            return z3.BoolVal(True)
        neg = False
        rs = mask_ranges(m)
        rn = mask_ranges(FULL & ~m)
        if len(rn) < len(rs):
            rs = rn
            neg = True
        parts = []
        for lo, hi in rs:
            if lo == hi:
                parts.append(b == lo)
            elif lo == 0:
                parts.append(z3.ULE(b, hi))
            elif hi == 255:
                parts.append(z3.UGE(b, lo))
            else:
                parts.append(z3.And(z3.UGE(b, lo), z3.ULE(b, hi)))
        f = z3.Or(*parts) if len(parts) != 1 else parts[0]
        return z3.Not(f) if neg else f

    def mdd_z3(self, node):
        if node is None:
            return z3.BoolVal(False)
        if node is TRUE:
            return z3.BoolVal(True)
        if node.z3 is not None:
            return node.z3
        parts = []
        for m, ch in node.edges:
            mz = self.mask_z3(node.idx, m)
            if ch is TRUE:
                parts.append(mz)
            else:
                parts.append(z3.And(mz, self.mdd_z3(ch)))
        node.z3 = z3.Or(*parts) if len(parts) != 1 else parts[0]
        return node.z3

    # ------------------------------------------------------------------
    def check(self, pc, extras=(), conds=(), raw=(), nocache=False):
        """satisfiability of  pc(MDD) /\\ extras /\\ conds.  returns 'sat'|'unsat'|'unknown'"""
        key = (pc.id if pc is not None else -1, tuple(e.id for e in extras), tuple(e.id if e.__class__ is Term else e for e in conds), tuple(r.get_id() for r in raw))
        r = self.cache.get(key)
        if r is not None and not (nocache and r == 'sat'):
            return r
        if pc is None:
            return 'unsat'
        for cnd in conds:
            if cnd is False:
                return 'unsat'
        if self.use_lia:
            hard = bool(raw)
            for e in tuple(extras) + tuple(conds):
                if e.__class__ is Term and e.hard:
                    hard = True
                    break
            if hard:
                try:
                    r = self.lia.check(pc, extras, conds, raw=raw)
                    self.stats['solver_s'] += 0  # accounted in lia.stats
                    self.stats.setdefault('lia_' + r, 0)
                    self.stats['lia_' + r] += 1
                    self.last = 'lia'
                    self.last_model = self.lia.last_model
                    self.cache[key] = r
                    return r   # bit-blasting a query with wide multiplications is hopeless: no BV retry
                except LiaUnsupported as ex:
                    self.stats.setdefault('lia_unsupported', 0)
                    self.stats['lia_unsupported'] += 1
        self.last = 'bv'
        fs = []
        if pc is not TRUE:
            fs.append(self.mdd_z3(pc))
        for e in extras:
            fs.append(self.to_z3(e))
        for cnd in conds:
            if cnd is True:
                continue
            fs.append(self.to_z3(cnd))
        t0 = time.time()
        self.s.push()
        try:
            for f in fs:
                self.s.add(f)
            r = str(self.s.check())
            self.last_model = self.s.model() if r == 'sat' else None
            if self.xs is not None:
                self.xs.offer('bv', r, self.s)
        finally:
            self.s.pop()
        self.stats['solver_s'] += time.time() - t0
        self.stats[r if r in ('sat', 'unsat') else 'unknown'] += 1
        if r not in ('sat', 'unsat'):
            r = 'unknown'
        self.cache[key] = r
        return r

    def model_value(self, t):
        """value of a term (or var) in the last model, as int / bool"""
        if t.__class__ is not Term:
            return t
        if self.last == 'lia':
            return self.store.evaluate(t, self.lia.model_assign())
        z = self.last_model.eval(self.to_z3(t), model_completion=True)
        if t.w == 0:
            return z3.is_true(z)
        return z.as_long()

    def model_assign(self):
        """var idx -> int for all vars created so far"""
        if self.last == 'lia':
            return self.lia.model_assign()
        out = {}
        for v in self.store.vars:
            z = self.zvar(v)
            val = self.last_model.eval(z, model_completion=True)
            out[v.idx] = z3.is_true(val) if v.w == 0 else val.as_long()
        return out
