//go:build verif && !verifnative

package fp

func vNondetInt(name string) int
func vNondetBool(name string) bool
func vNondetByte(name string) byte
func vNondetUint64(name string) uint64
func vAssume(c bool)
func vAssert(c bool, id string)
func vReach(id string)

// vAssertRounded: bits is the IEEE-754 binary64 pattern nearest (ties to even) to
// (-1)^neg * man * 10^exp10, and it is finite. Decided by the executor in exact
// integer arithmetic (see engine/gosym/fpspec.py); natively with math/big.
func vAssertRounded(man uint64, exp10 int, neg bool, bits uint64, id string)

// tier 4 (glue): see engine/gosym/glue.py
func vAssertGlueValue(lit []byte, bits uint64, id string)
func vGlueOverflows(lit []byte) bool
func vAssertScanValue(lit []byte, mant uint64, exp int, neg bool, trunc bool, id string)
