"""Path conditions over input bytes as reduced multi-valued decision diagrams.

A node tests one byte variable (identified by its order index); its edges
carry disjoint 256-bit masks. Variable order is *descending* from the root
(the root tests the highest-numbered byte), so that conjoining a predicate on
a byte later than everything seen so far - the common case when a scanner
moves forward - is O(1). FALSE is None, TRUE is the singleton TRUE.
Nodes are hash-consed, so equal sets of inputs are the identical object and
state merging can compare path conditions with `is`.
"""

FULL = (1 << 256) - 1


class Node:
    __slots__ = ('idx', 'edges', 'id', 'z3', 'cnt')

    def __repr__(self):
        return 'N%d@%d' % (self.id, self.idx)


class _True:
    idx = -1
    id = 0
    z3 = None

    def __repr__(self):
        return 'TRUE'


TRUE = _True()


class MDD:
    def __init__(self):
        self.table = {}
        self.nid = 1
        self.and_memo = {}
        self.or_memo = {}

    def mk(self, idx, edges):
        # edges: iterable of (mask, child); merge equal children, drop empties
        by = {}
        for m, c in edges:
            if not m or c is None:
                continue
            k = c.id
            if k in by:
                by[k] = (by[k][0] | m, c)
            else:
                by[k] = (m, c)
        if not by:
            return None
        if len(by) == 1:
            (m, c), = by.values()
            if m == FULL:
                return c
        es = tuple(sorted(((m, c.id) for m, c in by.values())))
        key = (idx, es)
        n = self.table.get(key)
        if n is None:
            n = Node()
            n.idx = idx
            n.edges = tuple(sorted(by.values(), key=lambda e: e[1].id))
            n.id = self.nid
            n.z3 = None
            n.cnt = None
            self.nid += 1
            self.table[key] = n
        return n

    def and_byte(self, node, j, M):
        """node AND (byte j in M)"""
        if node is None or not M:
            return None
        if M == FULL:
            return node
        if node.idx < j:
            return self.mk(j, ((M, node),))
        if node.idx == j:
            return self.mk(j, [(m & M, c) for m, c in node.edges])
        key = (node.id, j, M)
        r = self.and_memo.get(key, 0)
        if r != 0:
            return r
        r = self.mk(node.idx, [(m, self.and_byte(c, j, M)) for m, c in node.edges])
        self.and_memo[key] = r
        return r

    def or_(self, a, b):
        if a is None:
            return b
        if b is None:
            return a
        if a is b:
            return a
        if a is TRUE or b is TRUE:
            return TRUE
        if a.id > b.id:
            a, b = b, a
        key = (a.id, b.id)
        r = self.or_memo.get(key, 0)
        if r != 0:
            return r
        if a.idx == b.idx:
            edges = []
            alla = 0
            allb = 0
            for mb, cb in b.edges:
                allb |= mb
            for ma, ca in a.edges:
                alla |= ma
                rest = ma & ~allb
                if rest:
                    edges.append((rest, ca))
                for mb, cb in b.edges:
                    x = ma & mb
                    if x:
                        edges.append((x, self.or_(ca, cb)))
            for mb, cb in b.edges:
                rest = mb & ~alla
                if rest:
                    edges.append((rest, cb))
            r = self.mk(a.idx, edges)
        else:
            hi, lo = (a, b) if a.idx > b.idx else (b, a)
            edges = []
            allh = 0
            for m, c in hi.edges:
                allh |= m
                edges.append((m, self.or_(c, lo)))
            rest = FULL & ~allh
            if rest:
                edges.append((rest, lo))
            r = self.mk(hi.idx, edges)
        self.or_memo[key] = r
        return r

    def and_(self, a, b):
        """general conjunction (rarely needed)"""
        if a is None or b is None:
            return None
        if a is TRUE:
            return b
        if b is TRUE:
            return a
        if a is b:
            return a
        if a.idx == b.idx:
            edges = []
            for ma, ca in a.edges:
                for mb, cb in b.edges:
                    x = ma & mb
                    if x:
                        edges.append((x, self.and_(ca, cb)))
            return self.mk(a.idx, edges)
        hi, lo = (a, b) if a.idx > b.idx else (b, a)
        return self.mk(hi.idx, [(m, self.and_(c, lo)) for m, c in hi.edges])

    def count(self, node, nvars):
        """number of assignments to bytes 0..nvars-1 in the set"""
        if node is None:
            return 0

        def rec(n):
            # returns count over bytes 0..n.idx
            if n is TRUE:
                return 1
            if n.cnt is not None:
                return n.cnt
            tot = 0
            for m, c in n.edges:
                tot += bin(m).count('1') * rec(c) * 256 ** (n.idx - 1 - c.idx)
            n.cnt = tot
            return tot
        return rec(node) * 256 ** (nvars - 1 - node.idx)

    def pick(self, node, nvars, prefer=None):
        """one member as a list of nvars byte values (unconstrained bytes: prefer or 0x20)"""
        out = [None] * nvars
        n = node
        while n is not TRUE:
            m, c = n.edges[0]
            # pick lowest printable value in the mask if any
            v = None
            for cand in (prefer or ()):
                if (m >> cand) & 1:
                    v = cand
                    break
            if v is None:
                lowp = m >> 0x21 << 0x21
                lowp &= (1 << 0x7f) - 1
                mm = lowp if lowp else m
                v = (mm & -mm).bit_length() - 1
            out[n.idx] = v
            n = c
        return [0x20 if x is None else x for x in out]

    def size(self, node):
        seen = set()
        st = [node]
        while st:
            n = st.pop()
            if n is None or n is TRUE or n.id in seen:
                continue
            seen.add(n.id)
            for m, c in n.edges:
                st.append(c)
        return len(seen)


def mask_ranges(m):
    """256-bit mask -> list of inclusive (lo, hi) ranges"""
    out = []
    i = 0
    while i < 256:
        if (m >> i) & 1:
            j = i
            while j + 1 < 256 and (m >> (j + 1)) & 1:
                j += 1
            out.append((i, j))
            i = j + 1
        else:
            i += 1
    return out
